//! Checker-supplied arithmetic for C03: exact integer min-sum over i32, implementing the
//! public `DecoderArithmetic` trait (a "user-defined" rule set plugged into the generic
//! decoders).  It also checks, order-insensitively, that each node is handed well-formed
//! message lists (distinct neighbour tags).
use ldpc_toolbox::decoder::arithmetic::DecoderArithmetic;
use ldpc_toolbox::decoder::{Message, SentMessage};

#[derive(Debug, Clone, Default)]
pub struct MinSumI32 {
    pub check_calls: usize,
    pub var_calls: usize,
    pub layer_calls: usize,
}

#[inline]
fn iabs(x: i32) -> i32 { if x < 0 { -x } else { x } }

impl DecoderArithmetic for MinSumI32 {
    type Llr = i32;
    type CheckMessage = i32;
    type VarMessage = i32;
    type VarLlr = i32;

    fn input_llr_quantize(&self, llr: f64) -> i32 { llr as i32 }
    fn llr_hard_decision(&self, llr: i32) -> bool { llr <= 0 }
    fn llr_to_var_message(&self, llr: i32) -> i32 { llr }
    fn llr_to_var_llr(&self, llr: i32) -> i32 { llr }
    fn var_llr_to_llr(&self, v: i32) -> i32 { v }

    fn send_check_messages<F>(&mut self, var_messages: &[Message<i32>], mut send: F)
    where F: FnMut(SentMessage<i32>) {
        self.check_calls += 1;
        let d = var_messages.len();
        assert!(d >= 2);
        let mut j = 0;
        while j < d {
            let mut neg = false;
            let mut m = i32::MAX;
            let mut k = 0;
            while k < d {
                if k != j {
                    // neighbour tags are distinct
                    assert!(var_messages[k].source != var_messages[j].source);
                    let v = var_messages[k].value;
                    if v < 0 { neg = !neg; }
                    if iabs(v) < m { m = iabs(v); }
                }
                k += 1;
            }
            send(SentMessage { dest: var_messages[j].source, value: if neg { -m } else { m } });
            j += 1;
        }
    }

    fn send_var_messages<F>(&mut self, input_llr: i32, check_messages: &[Message<i32>], mut send: F) -> i32
    where F: FnMut(SentMessage<i32>) {
        self.var_calls += 1;
        let d = check_messages.len();
        let mut total = input_llr;
        let mut j = 0;
        while j < d { total += check_messages[j].value; j += 1; }
        let mut j = 0;
        while j < d {
            send(SentMessage { dest: check_messages[j].source, value: total - check_messages[j].value });
            j += 1;
        }
        total
    }

    fn update_check_messages_and_vars(&mut self, check_messages: &mut [SentMessage<i32>], vars: &mut [i32]) {
        self.layer_calls += 1;
        let d = check_messages.len();
        assert!(d >= 2 && d <= 8);
        let mut x = [0i32; 8];
        let mut j = 0;
        while j < d { x[j] = vars[check_messages[j].dest] - check_messages[j].value; j += 1; }
        let mut j = 0;
        while j < d {
            let mut neg = false;
            let mut m = i32::MAX;
            let mut k = 0;
            while k < d {
                if k != j {
                    assert!(check_messages[k].dest != check_messages[j].dest);
                    if x[k] < 0 { neg = !neg; }
                    if iabs(x[k]) < m { m = iabs(x[k]); }
                }
                k += 1;
            }
            let new = if neg { -m } else { m };
            check_messages[j].value = new;
            vars[check_messages[j].dest] = x[j] + new;
            j += 1;
        }
    }
}
