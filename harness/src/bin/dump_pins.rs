//! One-off snapshot of the code tables of /repo (through the verif-hooks accessors), written
//! to /verif/pins/*.json and committed.  The checks compare the tree against these pins.
use ldpc_toolbox::codes::ccsds::{AR4JACode, AR4JAInfoSize, AR4JARate, C2Code};
use ldpc_toolbox::codes::dvbs2::Code;

fn main() {
    let mut s = String::from("{\n \"dvbs2\": {\n");
    let codes: Vec<Code> = enum_iterator_all();
    for (ci, code) in codes.iter().enumerate() {
        let (n, m, k, q) = code.verif_params();
        let tab = code.verif_addresses();
        s += &format!("  \"{:?}\": {{\"n\": {}, \"m\": {}, \"k\": {}, \"q\": {}, \"addresses\": [", code, n, m, k, q);
        for (t, row) in tab.iter().enumerate() {
            s += &format!("{:?}{}", row, if t + 1 < tab.len() { "," } else { "" });
        }
        s += &format!("]}}{}\n", if ci + 1 < codes.len() { "," } else { "" });
    }
    s += " },\n \"ccsds\": {\n  \"theta\": [";
    for k in 1..=26 {
        s += &format!("{}{}", AR4JACode::verif_theta(k), if k < 26 { "," } else { "" });
    }
    s += "],\n  \"phi\": {";
    let rates = [AR4JARate::R1_2, AR4JARate::R2_3, AR4JARate::R4_5];
    let sizes = [AR4JAInfoSize::K1024, AR4JAInfoSize::K4096, AR4JAInfoSize::K16384];
    // phi depends on M only; collect by M
    let mut seen = std::collections::BTreeMap::new();
    for r in rates.iter() {
        for z in sizes.iter() {
            let c = AR4JACode::new(*r, *z);
            let m = c.verif_m();
            let mut tab = vec![];
            for j in 0..4 {
                let mut row = vec![];
                for k in 1..=26 { row.push(c.verif_phi(k, j)); }
                tab.push(row);
            }
            seen.insert(m, tab);
        }
    }
    let mut first = true;
    for (m, tab) in seen.iter() {
        s += &format!("{}\"{}\": {:?}", if first { "" } else { "," }, m, tab);
        first = false;
    }
    s += "},\n  \"m\": {";
    let mut first = true;
    for r in rates.iter() {
        for z in sizes.iter() {
            let c = AR4JACode::new(*r, *z);
            s += &format!("{}\"{:?}/{:?}\": {}", if first { "" } else { "," }, r, z, c.verif_m());
            first = false;
        }
    }
    s += "},\n  \"c2_circulants\": ";
    s += &format!("{:?}", C2Code::verif_circulants());
    s += "\n }\n}\n";
    print!("{}", s);
}

fn enum_iterator_all() -> Vec<Code> {
    use Code::*;
    vec![R1_4, R1_3, R2_5, R1_2, R3_5, R2_3, R3_4, R4_5, R5_6, R8_9, R9_10, R1_4short, R1_3short, R2_5short,
         R1_2short, R3_5short, R2_3short, R3_4short, R4_5short, R5_6short, R8_9short]
}
