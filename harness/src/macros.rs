//! Harness-generating macros.  Each macro expands to one `#[kani::proof]` per concrete
//! monomorphisation; the invocations are written by the driver into `gen.rs`.

/// Distinct, non-monotone node tags used as message sources/destinations (catches
/// index/tag confusion).
pub const TAGS: [usize; 16] = [7, 2, 9, 4, 0, 5, 11, 3, 8, 1, 6, 10, 13, 12, 15, 14];

#[inline]
pub fn tag_index(tag: usize, d: usize) -> usize {
    let mut j = 0;
    while j < d {
        if TAGS[j] == tag {
            return j;
        }
        j += 1;
    }
    usize::MAX
}

/// attribute bundles ------------------------------------------------------------------
#[macro_export]
macro_rules! with_table_stubs {
    ($unw:expr, $($item:tt)*) => {
        #[kani::proof]
        #[kani::unwind($unw)]
        #[kani::stub(f64::exp, crate::stubs::t_exp)]
        #[kani::stub(f64::ln_1p, crate::stubs::t_ln_1p)]
        $($item)*
    };
}

#[macro_export]
macro_rules! with_contract_stubs {
    ($unw:expr, $($item:tt)*) => {
        #[kani::proof]
        #[kani::unwind($unw)]
        #[kani::stub(f64::tanh, crate::stubs::c_tanh64)]
        #[kani::stub(f64::atanh, crate::stubs::c_atanh64)]
        #[kani::stub(f64::ln, crate::stubs::c_ln64)]
        #[kani::stub(f64::exp, crate::stubs::c_exp64)]
        #[kani::stub(f64::ln_1p, crate::stubs::c_ln1p64)]
        #[kani::stub(f32::tanh, crate::stubs::c_tanh32)]
        #[kani::stub(f32::atanh, crate::stubs::c_atanh32)]
        #[kani::stub(f32::ln, crate::stubs::c_ln32)]
        #[kani::stub(f32::exp, crate::stubs::c_exp32)]
        #[kani::stub(f32::ln_1p, crate::stubs::c_ln1p32)]
        $($item)*
    };
}

#[macro_export]
macro_rules! with_surrogate_stubs {
    ($unw:expr, $($item:tt)*) => {
        #[kani::proof]
        #[kani::unwind($unw)]
        #[kani::stub(f64::tanh, crate::stubs::s_tanh64)]
        #[kani::stub(f64::atanh, crate::stubs::s_atanh64)]
        #[kani::stub(f64::ln, crate::stubs::s_ln64)]
        #[kani::stub(f64::exp, crate::stubs::s_exp64)]
        #[kani::stub(f64::ln_1p, crate::stubs::s_ln1p64)]
        #[kani::stub(f32::tanh, crate::stubs::s_tanh32)]
        #[kani::stub(f32::atanh, crate::stubs::s_atanh32)]
        #[kani::stub(f32::ln, crate::stubs::s_ln32)]
        #[kani::stub(f32::exp, crate::stubs::s_exp32)]
        #[kani::stub(f32::ln_1p, crate::stubs::s_ln1p32)]
        $($item)*
    };
}

/// Symbolic i8 in [-127, 127].
#[cfg(kani)]
#[inline]
pub fn any_i8m() -> i8 {
    let v: i8 = kani::any();
    kani::assume(v != -128);
    v
}

/// Symbolic finite float with |x| <= 1e30.
#[cfg(kani)]
#[inline]
pub fn any_f64_1e30() -> f64 {
    let v: f64 = kani::any();
    kani::assume(v >= -1e30 && v <= 1e30);
    v
}
#[cfg(kani)]
#[inline]
pub fn any_f32_1e30() -> f32 {
    let v: f32 = kani::any();
    kani::assume(v >= -1e30 && v <= 1e30);
    v
}

/// Symbolic float on the exact grid k/8, |k| <= 2^20: sums of up to 8 such values are exact in
/// f32 and f64, so every correct summation order gives bit-identical results.
#[cfg(kani)]
#[inline]
pub fn any_f64_grid() -> f64 {
    let k: i32 = kani::any();
    kani::assume(k >= -(1 << 20) && k <= (1 << 20));
    (k as f64) * 0.125
}
#[cfg(kani)]
#[inline]
pub fn any_f32_grid() -> f32 {
    let k: i32 = kani::any();
    kani::assume(k >= -(1 << 20) && k <= (1 << 20));
    (k as f32) * 0.125
}

/// Small symbolic float domain s/8, s in [-127,127] (two-run / equivalence harnesses: proving
/// two float computations equal is a miter, tractable only on a small domain -- DESIGN P24).
#[cfg(kani)]
#[inline]
pub fn any_f64_small() -> f64 {
    (any_i8m() as f64) * 0.125
}
#[cfg(kani)]
#[inline]
pub fn any_f32_small() -> f32 {
    (any_i8m() as f32) * 0.125
}

/// Tiny symbolic float domain s/8, s in [-7,7].
#[cfg(kani)]
#[inline]
pub fn any_f64_tiny() -> f64 {
    let s: i8 = kani::any();
    kani::assume(s >= -7 && s <= 7);
    (s as f64) * 0.125
}
#[cfg(kani)]
#[inline]
pub fn any_f32_tiny() -> f32 {
    let s: i8 = kani::any();
    kani::assume(s >= -7 && s <= 7);
    (s as f32) * 0.125
}

// =====================================================================================
// C05.1 quantiser (8-bit): every f64 bit pattern
// =====================================================================================
#[macro_export]
macro_rules! c05_quant_i8 {
    ($name:ident, $ty:ty) => {
        $crate::with_table_stubs! { 26,
        fn $name() {
            let a = <$ty>::new();
            let x: f64 = kani::any();
            let q = a.input_llr_quantize(x) as i32;
            assert!(q == $crate::refmodels::quantize_spec(x));
            assert!(q != -128 && q >= -127 && q <= 127);
            kani::cover!(x.is_nan());
            kani::cover!(x.is_infinite() && q == -127);
            kani::cover!(q == 3 && x < 0.4);
            // downstream identities of the quantised value
            assert!(a.llr_to_var_message(q as i8) as i32 == q);
            assert!(a.llr_to_var_llr(q as i8) as i32 == q);
            assert!(a.llr_hard_decision(q as i8) == (q <= 0));
        }}
    };
}

/// C05.1 for float types: the working-precision cast, bit-identical; identities.
#[macro_export]
macro_rules! c05_quant_f {
    ($name:ident, $ty:ty, $f:ty) => {
        #[kani::proof]
        #[kani::unwind(4)]
        fn $name() {
            let a = <$ty>::new();
            let x: f64 = kani::any();
            kani::assume(!x.is_nan());
            let q: $f = a.input_llr_quantize(x);
            assert!(q.to_bits() == (x as $f).to_bits());
            assert!(a.llr_to_var_message(q).to_bits() == q.to_bits());
            assert!(a.llr_to_var_llr(q).to_bits() == q.to_bits());
            assert!(a.var_llr_to_llr(q).to_bits() == q.to_bits());
            assert!(a.llr_hard_decision(q) == (q <= 0.0));
            kani::cover!(q > 1.0);
            kani::cover!(q.is_infinite());
        }
    };
}

// =====================================================================================
// C05.5 var_llr_to_llr == clip (8-bit): every i16
// =====================================================================================
#[macro_export]
macro_rules! c05_varllr_i8 {
    ($name:ident, $ty:ty) => {
        $crate::with_table_stubs! { 26,
        fn $name() {
            let a = <$ty>::new();
            let v: i16 = kani::any();
            let r = a.var_llr_to_llr(v) as i32;
            assert!(r == $crate::refmodels::clip127(v as i32));
            kani::cover!(v == i16::MIN);
            kani::cover!(r == 5);
        }}
    };
}

// =====================================================================================
// C05.2 send_var_messages (8-bit), degree D
// =====================================================================================
#[macro_export]
macro_rules! c05_var_i8 {
    ($name:ident, $ty:ty, $cfg:expr, $d:expr, $unw:expr) => {
        $crate::with_table_stubs! { $unw,
        fn $name() {
            const D: usize = $d;
            let mut a = <$ty>::new();
            let inp = $crate::macros::any_i8m();
            let mut vals = [0i32; D];
            let mut msgs = [Message { source: 0usize, value: 0i8 }; D];
            let mut j = 0;
            while j < D {
                let v = $crate::macros::any_i8m();
                vals[j] = v as i32;
                msgs[j] = Message { source: $crate::macros::TAGS[j % 16] + 16 * (j / 16), value: v };
                j += 1;
            }
            let mut out = [0i32; D];
            let mut cnt = [0u8; D];
            let mut bad = false;
            let r = a.send_var_messages(inp, &msgs, |m| {
                let t = m.dest;
                let j = $crate::macros::tag_index(t % 16, 16) + 16 * (t / 16);
                if j < D {
                    out[j] = m.value as i32;
                    cnt[j] += 1;
                } else {
                    bad = true;
                }
            });
            assert!(!bad);
            let (rr, ro) = $crate::refmodels::var_rule_i8::<D>($cfg, inp as i32, &vals);
            assert!(r as i32 == rr);
            assert!(r != -128);
            let mut j = 0;
            while j < D {
                assert!(cnt[j] == 1);
                assert!(out[j] == ro[j]);
                assert!(out[j] != -128);
                j += 1;
            }
            kani::cover!(r == 127);
            kani::cover!(r == -127);
            kani::cover!(r == 1);
        }}
    };
}

/// C05.2 at large degree: overflow freedom only (no per-message bookkeeping, keeps the
/// formula small).  Values in [-127,127].
#[macro_export]
macro_rules! c05_var_i8_big {
    ($name:ident, $ty:ty, $d:expr, $unw:expr) => {
        $crate::with_table_stubs! { $unw,
        fn $name() {
            const D: usize = $d;
            let mut a = <$ty>::new();
            let inp = $crate::macros::any_i8m();
            let mut msgs = [Message { source: 0usize, value: 0i8 }; D];
            let mut total: i32 = inp as i32;
            let mut j = 0;
            while j < D {
                let v = $crate::macros::any_i8m();
                total += v as i32;
                msgs[j] = Message { source: j, value: v };
                j += 1;
            }
            let mut n = 0usize;
            let mut m128 = false;
            let r = a.send_var_messages(inp, &msgs, |m| {
                n += 1;
                if m.value == -128 { m128 = true; }
            });
            assert!(n == D);
            assert!(!m128);
            assert!(r != -128);
            // saturating sum (deg-1 clipping does not apply at this degree)
            assert!(r as i32 == $crate::refmodels::clip127(total));
            kani::cover!(total > 20000);
            kani::cover!(total < -20000);
        }}
    };
}

// =====================================================================================
// C05.3 send_var_messages (float types): bit-identical IEEE sum / subtract
// =====================================================================================
#[macro_export]
macro_rules! c05_var_f {
    ($name:ident, $ty:ty, $f:ty, $anyf:path, $d:expr, $unw:expr) => {
        #[kani::proof]
        #[kani::unwind($unw)]
        fn $name() {
            const D: usize = $d;
            let mut a = <$ty>::new();
            let inp: $f = $anyf();
            let mut vals = [0.0 as $f; D];
            let mut msgs = [Message { source: 0usize, value: 0.0 as $f }; D];
            let mut j = 0;
            while j < D {
                let v: $f = $anyf();
                vals[j] = v;
                msgs[j] = Message { source: $crate::macros::TAGS[j], value: v };
                j += 1;
            }
            let mut out = [0.0 as $f; D];
            let mut cnt = [0u8; D];
            let mut bad = false;
            let r = a.send_var_messages(inp, &msgs, |m| {
                let j = $crate::macros::tag_index(m.dest, D);
                if j < D { out[j] = m.value; cnt[j] += 1; } else { bad = true; }
            });
            assert!(!bad);
            // channel LLR plus all incoming messages (sum of the messages first, in order)
            let mut s: $f = 0.0;
            let mut j = 0;
            while j < D { s = s + vals[j]; j += 1; }
            let total = inp + s;
            assert!(r.to_bits() == total.to_bits() || (r == 0.0 && total == 0.0));
            let mut j = 0;
            while j < D {
                assert!(cnt[j] == 1);
                let e = total - vals[j];
                assert!(out[j].to_bits() == e.to_bits() || (out[j] == 0.0 && e == 0.0));
                j += 1;
            }
            kani::cover!(r > 1.0);
            kani::cover!(r < -1.0);
        }
    };
}

// =====================================================================================
// C04 check-node rule (8-bit), degree D: equality with the reference + statement facts
// =====================================================================================
#[macro_export]
macro_rules! c04_check_i8 {
    ($name:ident, $ty:ty, $cfg:expr, $d:expr, $unw:expr) => {
        $crate::with_table_stubs! { $unw,
        fn $name() {
            const D: usize = $d;
            let c: $crate::refmodels::Cfg = $cfg;
            let mut a = <$ty>::new();
            let mut vals = [0i32; D];
            let mut msgs = [Message { source: 0usize, value: 0i8 }; D];
            let mut j = 0;
            while j < D {
                let v = $crate::macros::any_i8m();
                vals[j] = v as i32;
                msgs[j] = Message { source: $crate::macros::TAGS[j], value: v };
                j += 1;
            }
            let mut out = [0i32; D];
            let mut cnt = [0u8; D];
            let mut bad = false;
            a.send_check_messages(&msgs, |m| {
                let j = $crate::macros::tag_index(m.dest, D);
                if j < D { out[j] = m.value as i32; cnt[j] += 1; } else { bad = true; }
            });
            assert!(!bad);
            let r = $crate::refmodels::check_rule_i8::<D>(c, &vals);
            let mut negs = 0u32;
            let mut j = 0;
            while j < D { if vals[j] < 0 { negs += 1; } j += 1; }
            let mut j = 0;
            while j < D {
                // exactly one message per neighbour
                assert!(cnt[j] == 1);
                // equals the reference rule
                assert!(out[j] == r[j]);
                assert!(out[j] >= -127 && out[j] <= 127);
                // sign = product of the other signs (when non-zero)
                let on = negs - if vals[j] < 0 { 1 } else { 0 };
                if out[j] > 0 { assert!(on % 2 == 0); }
                if out[j] < 0 { assert!(on % 2 == 1); }
                // magnitude <= smallest other magnitude, unless promoted by PHL
                let mut mn = 1000i32;
                let mut k = 0;
                while k < D {
                    if k != j {
                        let m = if vals[k] < 0 { -vals[k] } else { vals[k] };
                        if m < mn { mn = m; }
                    }
                    k += 1;
                }
                let mag = if out[j] < 0 { -out[j] } else { out[j] };
                if c.phl {
                    assert!(mag <= mn || (mag == 127 && mn >= 100));
                } else {
                    assert!(mag <= mn);
                }
                j += 1;
            }
            kani::cover!(out[0] >= 100);
            kani::cover!(out[0] <= -100);
            kani::cover!(out[D - 1] == 0 && vals[D - 1] != 0);
            kani::cover!(out[D - 1] == 50);
        }}
    };
}

// =====================================================================================
// C04 check-node rule (float types), CONTRACT stubs: routing, and sign / magnitude
// clauses where the contract decides them.  `$sign`: assert the sign rule; `$mag`: assert
// 0 <= |out| <= min other |in|.
// =====================================================================================
#[macro_export]
macro_rules! c04_check_f {
    ($name:ident, $ty:ty, $f:ty, $anyf:path, $d:expr, $unw:expr, $sign:expr, $mag:expr) => {
        $crate::with_contract_stubs! { $unw,
        fn $name() {
            const D: usize = $d;
            let mut a = <$ty>::new();
            let mut vals = [0.0 as $f; D];
            let mut msgs = [Message { source: 0usize, value: 0.0 as $f }; D];
            let mut j = 0;
            while j < D {
                let v: $f = $anyf();
                vals[j] = v;
                msgs[j] = Message { source: $crate::macros::TAGS[j], value: v };
                j += 1;
            }
            let mut out = [0.0 as $f; D];
            let mut cnt = [0u8; D];
            let mut bad = false;
            a.send_check_messages(&msgs, |m| {
                let j = $crate::macros::tag_index(m.dest, D);
                if j < D { out[j] = m.value; cnt[j] += 1; } else { bad = true; }
            });
            assert!(!bad);
            let mut negs = 0u32;
            let mut j = 0;
            while j < D { if vals[j] < 0.0 { negs += 1; } j += 1; }
            let mut j = 0;
            while j < D {
                assert!(cnt[j] == 1);
                if $sign {
                    let on = negs - if vals[j] < 0.0 { 1 } else { 0 };
                    if out[j] > 0.0 { assert!(on % 2 == 0); }
                    if out[j] < 0.0 { assert!(on % 2 == 1); }
                }
                if $mag {
                    let mut mn = <$f>::INFINITY;
                    let mut k = 0;
                    while k < D {
                        if k != j && vals[k].abs() < mn { mn = vals[k].abs(); }
                        k += 1;
                    }
                    assert!(out[j].abs() <= mn);
                }
                j += 1;
            }
            kani::cover!(out[0] > 0.0);
            kani::cover!(out[0] < 0.0);
        }}
    };
}

// =====================================================================================
// C05.4 layered primitive == flooding check rule on the extrinsic values (8-bit)
// =====================================================================================
#[macro_export]
macro_rules! c05_layered_i8 {
    ($name:ident, $ty:ty, $d:expr, $unw:expr) => {
        $crate::with_table_stubs! { $unw,
        fn $name() {
            const D: usize = $d;
            let mut a = <$ty>::new();
            let mut b = <$ty>::new();
            let mut vars = [0i16; D + 2];
            vars[0] = kani::any();
            vars[1] = kani::any();
            let mut old = [0i8; D];
            let mut cm = [SentMessage { dest: 0usize, value: 0i8 }; D];
            let mut msgs = [Message { source: 0usize, value: 0i8 }; D];
            let mut j = 0;
            while j < D {
                let t = D + 1 - j;
                let o = $crate::macros::any_i8m();
                let v: i16 = kani::any();
                // reachable envelope |v| <= 127*(variable degree + 1), variable degree <= 200
                kani::assume(v >= -25527 && v <= 25527);
                old[j] = o;
                vars[t] = v;
                cm[j] = SentMessage { dest: t, value: o };
                let x = $crate::refmodels::clip127(v as i32 - o as i32);
                msgs[j] = Message { source: t, value: x as i8 };
                j += 1;
            }
            let vars0 = vars;
            a.update_check_messages_and_vars(&mut cm, &mut vars);
            let mut exp = [0i32; D];
            let mut cnt = [0u8; D];
            let mut bad = false;
            b.send_check_messages(&msgs, |m| {
                let j = (D + 1).wrapping_sub(m.dest);
                if j < D { exp[j] = m.value as i32; cnt[j] += 1; } else { bad = true; }
            });
            assert!(!bad);
            let mut j = 0;
            while j < D {
                let t = D + 1 - j;
                assert!(cnt[j] == 1);
                assert!(cm[j].dest == t);
                assert!(cm[j].value as i32 == exp[j]);
                assert!(vars[t] as i32 == vars0[t] as i32 - old[j] as i32 + exp[j]);
                j += 1;
            }
            // variables 0 and 1 are not connected to this check
            assert!(vars[0] == vars0[0] && vars[1] == vars0[1]);
            kani::cover!(cm[0].value > 3);
            kani::cover!(cm[0].value < -3);
            kani::cover!(vars[D + 1] > 20000);
        }}
    };
}

// =====================================================================================
// C05.4 layered primitive == flooding check rule on the extrinsic values (float types,
// SURROGATE math on both sides; inputs on the exact grid so that v - old is exact)
// =====================================================================================
#[macro_export]
macro_rules! c05_layered_f {
    ($name:ident, $ty:ty, $f:ty, $anyf:path, $d:expr, $unw:expr) => {
        $crate::with_surrogate_stubs! { $unw,
        fn $name() {
            const D: usize = $d;
            let mut a = <$ty>::new();
            let mut b = <$ty>::new();
            let mut vars = [0.0 as $f; D + 2];
            vars[0] = $anyf();
            vars[1] = $anyf();
            let mut old = [0.0 as $f; D];
            let mut cm = [SentMessage { dest: 0usize, value: 0.0 as $f }; D];
            let mut msgs = [Message { source: 0usize, value: 0.0 as $f }; D];
            let mut j = 0;
            while j < D {
                let t = D + 1 - j;
                let o: $f = $anyf();
                let v: $f = $anyf();
                old[j] = o;
                vars[t] = v;
                cm[j] = SentMessage { dest: t, value: o };
                msgs[j] = Message { source: t, value: v - o };
                j += 1;
            }
            let vars0 = vars;
            a.update_check_messages_and_vars(&mut cm, &mut vars);
            let mut exp = [0.0 as $f; D];
            let mut cnt = [0u8; D];
            let mut bad = false;
            b.send_check_messages(&msgs, |m| {
                let j = (D + 1).wrapping_sub(m.dest);
                if j < D { exp[j] = m.value; cnt[j] += 1; } else { bad = true; }
            });
            assert!(!bad);
            let mut j = 0;
            while j < D {
                let t = D + 1 - j;
                assert!(cnt[j] == 1);
                assert!(cm[j].dest == t);
                assert!(cm[j].value == exp[j]);
                // (v - old) + new, or the algebraically equal v + (new - old)
                let e1 = (vars0[t] - old[j]) + exp[j];
                let e2 = vars0[t] + (exp[j] - old[j]);
                assert!(vars[t] == e1 || vars[t] == e2);
                j += 1;
            }
            // variables 0 and 1 are not connected to this check
            assert!(vars[0] == vars0[0] && vars[1] == vars0[1]);
            kani::cover!(cm[0].value > 0.0);
            kani::cover!(cm[0].value < 0.0);
        }}
    };
}
