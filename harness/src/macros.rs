//! Harness-generating macros.  Each macro expands to one `#[kani::proof]` per concrete
//! monomorphisation; the invocations are written by the driver into `gen.rs`.

/// Distinct, non-monotone node tags used as message sources/destinations (catches
/// index/tag confusion).
pub const TAGS: [usize; 16] = [7, 2, 9, 4, 0, 5, 11, 3, 8, 1, 6, 10, 13, 12, 15, 14];

#[inline]
pub fn tag_index(tag: usize, d: usize) -> usize {
    let mut j = 0;
    while j < d {
        if TAGS[j] == tag {
            return j;
        }
        j += 1;
    }
    usize::MAX
}

/// attribute bundles ------------------------------------------------------------------
#[macro_export]
macro_rules! with_table_stubs {
    ($unw:expr, $($item:tt)*) => {
        #[kani::proof]
        #[kani::unwind($unw)]
        #[kani::stub(f64::exp, crate::stubs::t_exp)]
        #[kani::stub(f64::ln_1p, crate::stubs::t_ln_1p)]
        $($item)*
    };
}

#[macro_export]
macro_rules! with_contract_stubs {
    ($unw:expr, $($item:tt)*) => {
        #[kani::proof]
        #[kani::unwind($unw)]
        #[kani::stub(f64::tanh, crate::stubs::c_tanh64)]
        #[kani::stub(f64::atanh, crate::stubs::c_atanh64)]
        #[kani::stub(f64::ln, crate::stubs::c_ln64)]
        #[kani::stub(f64::exp, crate::stubs::c_exp64)]
        #[kani::stub(f64::ln_1p, crate::stubs::c_ln1p64)]
        #[kani::stub(f32::tanh, crate::stubs::c_tanh32)]
        #[kani::stub(f32::atanh, crate::stubs::c_atanh32)]
        #[kani::stub(f32::ln, crate::stubs::c_ln32)]
        #[kani::stub(f32::exp, crate::stubs::c_exp32)]
        #[kani::stub(f32::ln_1p, crate::stubs::c_ln1p32)]
        $($item)*
    };
}

#[macro_export]
macro_rules! with_surrogate_stubs {
    ($unw:expr, $($item:tt)*) => {
        #[kani::proof]
        #[kani::unwind($unw)]
        #[kani::stub(f64::tanh, crate::stubs::s_tanh64)]
        #[kani::stub(f64::atanh, crate::stubs::s_atanh64)]
        #[kani::stub(f64::ln, crate::stubs::s_ln64)]
        #[kani::stub(f64::exp, crate::stubs::s_exp64)]
        #[kani::stub(f64::ln_1p, crate::stubs::s_ln1p64)]
        #[kani::stub(f32::tanh, crate::stubs::s_tanh32)]
        #[kani::stub(f32::atanh, crate::stubs::s_atanh32)]
        #[kani::stub(f32::ln, crate::stubs::s_ln32)]
        #[kani::stub(f32::exp, crate::stubs::s_exp32)]
        #[kani::stub(f32::ln_1p, crate::stubs::s_ln1p32)]
        $($item)*
    };
}

/// Symbolic i8 in [-127, 127].
#[cfg(kani)]
#[inline]
pub fn any_i8m() -> i8 {
    let v: i8 = kani::any();
    kani::assume(v != -128);
    v
}

/// Symbolic finite float with |x| <= 1e30.
#[cfg(kani)]
#[inline]
pub fn any_f64_1e30() -> f64 {
    let v: f64 = kani::any();
    kani::assume(v >= -1e30 && v <= 1e30);
    v
}
#[cfg(kani)]
#[inline]
pub fn any_f32_1e30() -> f32 {
    let v: f32 = kani::any();
    kani::assume(v >= -1e30 && v <= 1e30);
    v
}

/// Symbolic float on the exact grid k/8, |k| <= 2^20: sums of up to 8 such values are exact in
/// f32 and f64, so every correct summation order gives bit-identical results.
#[cfg(kani)]
#[inline]
pub fn any_f64_grid() -> f64 {
    let k: i32 = kani::any();
    kani::assume(k >= -(1 << 20) && k <= (1 << 20));
    (k as f64) * 0.125
}
#[cfg(kani)]
#[inline]
pub fn any_f32_grid() -> f32 {
    let k: i32 = kani::any();
    kani::assume(k >= -(1 << 20) && k <= (1 << 20));
    (k as f32) * 0.125
}

/// Small symbolic float domain s/8, s in [-127,127] (two-run / equivalence harnesses: proving
/// two float computations equal is a miter, tractable only on a small domain -- DESIGN P24).
#[cfg(kani)]
#[inline]
pub fn any_f64_small() -> f64 {
    (any_i8m() as f64) * 0.125
}
#[cfg(kani)]
#[inline]
pub fn any_f32_small() -> f32 {
    (any_i8m() as f32) * 0.125
}

/// Tiny symbolic float domain s/8, s in [-7,7], plus -0.0.
#[cfg(kani)]
#[inline]
pub fn any_f64_tiny() -> f64 {
    // selector 15 is the negative zero (a value `x < 0.0` and `is_sign_negative()` disagree on)
    let r: u8 = kani::any::<u8>() % 16;
    if r == 15 { return -0.0; }
    let s: i8 = r as i8 - 7;
    (s as f64) * 0.125
}
#[cfg(kani)]
#[inline]
pub fn any_f32_tiny() -> f32 {
    // selector 15 is the negative zero (a value `x < 0.0` and `is_sign_negative()` disagree on)
    let r: u8 = kani::any::<u8>() % 16;
    if r == 15 { return -0.0; }
    let s: i8 = r as i8 - 7;
    (s as f32) * 0.125
}

// =====================================================================================
// C05.1 quantiser (8-bit): every f64 bit pattern
// =====================================================================================
#[macro_export]
macro_rules! c05_quant_i8 {
    ($name:ident, $ty:ty) => {
        $crate::with_table_stubs! { 26,
        fn $name() {
            let a = <$ty>::new();
            let x: f64 = kani::any();
            let q = a.input_llr_quantize(x) as i32;
            assert!(q == $crate::refmodels::quantize_spec(x));
            assert!(q != -128 && q >= -127 && q <= 127);
            kani::cover!(x.is_nan());
            kani::cover!(x.is_infinite() && q == -127);
            kani::cover!(q == 3 && x < 0.4);
            // downstream identities of the quantised value
            assert!(a.llr_to_var_message(q as i8) as i32 == q);
            assert!(a.llr_to_var_llr(q as i8) as i32 == q);
            assert!(a.llr_hard_decision(q as i8) == (q <= 0));
        }}
    };
}

/// C05.1 for float types: the working-precision cast, bit-identical; identities.
#[macro_export]
macro_rules! c05_quant_f {
    ($name:ident, $ty:ty, $f:ty) => {
        #[kani::proof]
        #[kani::unwind(4)]
        fn $name() {
            let a = <$ty>::new();
            let x: f64 = kani::any();
            kani::assume(!x.is_nan());
            let q: $f = a.input_llr_quantize(x);
            assert!(q.to_bits() == (x as $f).to_bits());
            assert!(a.llr_to_var_message(q).to_bits() == q.to_bits());
            assert!(a.llr_to_var_llr(q).to_bits() == q.to_bits());
            assert!(a.var_llr_to_llr(q).to_bits() == q.to_bits());
            assert!(a.llr_hard_decision(q) == (q <= 0.0));
            kani::cover!(q > 1.0);
            kani::cover!(q.is_infinite());
        }
    };
}

// =====================================================================================
// C05.5 var_llr_to_llr == clip (8-bit): every i16
// =====================================================================================
#[macro_export]
macro_rules! c05_varllr_i8 {
    ($name:ident, $ty:ty) => {
        $crate::with_table_stubs! { 26,
        fn $name() {
            let a = <$ty>::new();
            let v: i16 = kani::any();
            let r = a.var_llr_to_llr(v) as i32;
            assert!(r == $crate::refmodels::clip127(v as i32));
            kani::cover!(v == i16::MIN);
            kani::cover!(r == 5);
        }}
    };
}

// =====================================================================================
// C05.2 send_var_messages (8-bit), degree D
// =====================================================================================
#[macro_export]
macro_rules! c05_var_i8 {
    ($name:ident, $ty:ty, $cfg:expr, $d:expr, $unw:expr) => {
        $crate::with_table_stubs! { $unw,
        fn $name() {
            const D: usize = $d;
            let mut a = <$ty>::new();
            let inp = $crate::macros::any_i8m();
            let mut vals = [0i32; D];
            let mut msgs = [Message { source: 0usize, value: 0i8 }; D];
            let mut j = 0;
            while j < D {
                let v = $crate::macros::any_i8m();
                vals[j] = v as i32;
                msgs[j] = Message { source: $crate::macros::TAGS[j % 16] + 16 * (j / 16), value: v };
                j += 1;
            }
            let mut out = [0i32; D];
            let mut cnt = [0u8; D];
            let mut bad = false;
            let r = a.send_var_messages(inp, &msgs, |m| {
                let t = m.dest;
                let j = $crate::macros::tag_index(t % 16, 16) + 16 * (t / 16);
                if j < D {
                    out[j] = m.value as i32;
                    cnt[j] += 1;
                } else {
                    bad = true;
                }
            });
            assert!(!bad);
            let (rr, ro) = $crate::refmodels::var_rule_i8::<D>($cfg, inp as i32, &vals);
            assert!(r as i32 == rr);
            assert!(r != -128);
            let mut j = 0;
            while j < D {
                assert!(cnt[j] == 1);
                assert!(out[j] == ro[j]);
                assert!(out[j] != -128);
                j += 1;
            }
            kani::cover!(r == 127);
            kani::cover!(r == -127);
            kani::cover!(r == 1);
        }}
    };
}

/// C05.2 at large degree: overflow freedom only (no reference sum: that would be an adder-chain
/// miter).  Kani's overflow checks on the code's own i16 accumulation are the assertion; values
/// in [-127,127].
#[macro_export]
macro_rules! c05_var_i8_big {
    ($name:ident, $ty:ty, $d:expr, $unw:expr) => {
        $crate::with_table_stubs! { $unw,
        fn $name() {
            const D: usize = $d;
            let mut a = <$ty>::new();
            let inp = $crate::macros::any_i8m();
            let mut msgs = [Message { source: 0usize, value: 0i8 }; D];
            let mut j = 0;
            while j < D {
                msgs[j] = Message { source: j, value: $crate::macros::any_i8m() };
                j += 1;
            }
            let mut n = 0usize;
            let mut m128 = false;
            let r = a.send_var_messages(inp, &msgs, |m| {
                n += 1;
                if m.value == -128 { m128 = true; }
            });
            assert!(n == D);
            assert!(!m128);
            assert!(r != -128);
            kani::cover!(r == 127);
            kani::cover!(r == -127);
            kani::cover!(r == 0);
        }}
    };
}

// =====================================================================================
// C05.3 send_var_messages (float types): bit-identical IEEE sum / subtract
// =====================================================================================
#[macro_export]
macro_rules! c05_var_f {
    ($name:ident, $ty:ty, $f:ty, $anyf:path, $d:expr, $unw:expr) => {
        #[kani::proof]
        #[kani::unwind($unw)]
        fn $name() {
            const D: usize = $d;
            let mut a = <$ty>::new();
            let inp: $f = $anyf();
            let mut vals = [0.0 as $f; D];
            let mut msgs = [Message { source: 0usize, value: 0.0 as $f }; D];
            let mut j = 0;
            while j < D {
                let v: $f = $anyf();
                vals[j] = v;
                msgs[j] = Message { source: $crate::macros::TAGS[j], value: v };
                j += 1;
            }
            let mut out = [0.0 as $f; D];
            let mut cnt = [0u8; D];
            let mut bad = false;
            let r = a.send_var_messages(inp, &msgs, |m| {
                let j = $crate::macros::tag_index(m.dest, D);
                if j < D { out[j] = m.value; cnt[j] += 1; } else { bad = true; }
            });
            assert!(!bad);
            // channel LLR plus all incoming messages (sum of the messages first, in order)
            let mut s: $f = 0.0;
            let mut j = 0;
            while j < D { s = s + vals[j]; j += 1; }
            let total = inp + s;
            assert!(r.to_bits() == total.to_bits() || (r == 0.0 && total == 0.0));
            let mut j = 0;
            while j < D {
                assert!(cnt[j] == 1);
                let e = total - vals[j];
                assert!(out[j].to_bits() == e.to_bits() || (out[j] == 0.0 && e == 0.0));
                j += 1;
            }
            kani::cover!(r > 1.0);
            kani::cover!(r < -1.0);
        }
    };
}

// =====================================================================================
// C04 check-node rule (8-bit), degree D: equality with the reference + statement facts
// =====================================================================================
#[macro_export]
macro_rules! c04_check_i8 {
    ($name:ident, $ty:ty, $cfg:expr, $d:expr, $unw:expr, $ctor:ident) => {
        $crate::with_table_stubs! { $unw,
        fn $name() {
            const D: usize = $d;
            let c: $crate::refmodels::Cfg = $cfg;
            // `new` or `default`: both public ways to obtain the arithmetic
            let mut a = <$ty>::$ctor();
            let mut vals = [0i32; D];
            let mut msgs = [Message { source: 0usize, value: 0i8 }; D];
            let mut j = 0;
            while j < D {
                let v = $crate::macros::any_i8m();
                vals[j] = v as i32;
                msgs[j] = Message { source: $crate::macros::TAGS[j], value: v };
                j += 1;
            }
            let mut out = [0i32; D];
            let mut cnt = [0u8; D];
            let mut bad = false;
            a.send_check_messages(&msgs, |m| {
                let j = $crate::macros::tag_index(m.dest, D);
                if j < D { out[j] = m.value as i32; cnt[j] += 1; } else { bad = true; }
            });
            assert!(!bad);
            let r = $crate::refmodels::check_rule_i8::<D>(c, &vals);
            let mut negs = 0u32;
            let mut j = 0;
            while j < D { if vals[j] < 0 { negs += 1; } j += 1; }
            let mut j = 0;
            while j < D {
                // exactly one message per neighbour
                assert!(cnt[j] == 1);
                // equals the reference rule
                assert!(out[j] == r[j]);
                assert!(out[j] >= -127 && out[j] <= 127);
                // sign = product of the other signs (when non-zero)
                let on = negs - if vals[j] < 0 { 1 } else { 0 };
                if out[j] > 0 { assert!(on % 2 == 0); }
                if out[j] < 0 { assert!(on % 2 == 1); }
                // magnitude <= smallest other magnitude, unless promoted by PHL
                let mut mn = 1000i32;
                let mut k = 0;
                while k < D {
                    if k != j {
                        let m = if vals[k] < 0 { -vals[k] } else { vals[k] };
                        if m < mn { mn = m; }
                    }
                    k += 1;
                }
                let mag = if out[j] < 0 { -out[j] } else { out[j] };
                if c.phl {
                    assert!(mag <= mn || (mag == 127 && mn >= 100));
                } else {
                    assert!(mag <= mn);
                }
                j += 1;
            }
            kani::cover!(out[0] >= 100);
            kani::cover!(out[0] <= -100);
            kani::cover!(out[D - 1] == 0 && vals[D - 1] != 0);
            kani::cover!(out[D - 1] == 50);
        }}
    };
}

// =====================================================================================
// C04 check-node rule (float types), CONTRACT stubs: routing, and sign / magnitude
// clauses where the contract decides them.  `$sign`: assert the sign rule; `$mag`: assert
// 0 <= |out| <= min other |in|.
// =====================================================================================
#[macro_export]
macro_rules! c04_check_f {
    ($name:ident, $ty:ty, $f:ty, $anyf:path, $d:expr, $unw:expr, $sign:expr, $mag:expr) => {
        $crate::with_contract_stubs! { $unw,
        fn $name() {
            const D: usize = $d;
            let mut a = <$ty>::new();
            let mut vals = [0.0 as $f; D];
            let mut msgs = [Message { source: 0usize, value: 0.0 as $f }; D];
            let mut j = 0;
            while j < D {
                let v: $f = $anyf();
                vals[j] = v;
                msgs[j] = Message { source: $crate::macros::TAGS[j], value: v };
                j += 1;
            }
            let mut out = [0.0 as $f; D];
            let mut cnt = [0u8; D];
            let mut bad = false;
            a.send_check_messages(&msgs, |m| {
                let j = $crate::macros::tag_index(m.dest, D);
                if j < D { out[j] = m.value; cnt[j] += 1; } else { bad = true; }
            });
            assert!(!bad);
            let mut negs = 0u32;
            let mut j = 0;
            while j < D { if vals[j] < 0.0 { negs += 1; } j += 1; }
            let mut j = 0;
            while j < D {
                assert!(cnt[j] == 1);
                // finite inputs never produce NaN
                assert!(!out[j].is_nan());
                if $sign {
                    let on = negs - if vals[j] < 0.0 { 1 } else { 0 };
                    if out[j] > 0.0 { assert!(on % 2 == 0); }
                    if out[j] < 0.0 { assert!(on % 2 == 1); }
                }
                if $mag {
                    let mut mn = <$f>::INFINITY;
                    let mut k = 0;
                    while k < D {
                        if k != j && vals[k].abs() < mn { mn = vals[k].abs(); }
                        k += 1;
                    }
                    assert!(out[j].abs() <= mn);
                }
                j += 1;
            }
            kani::cover!(out[0] > 0.0);
            kani::cover!(out[0] < 0.0);
        }}
    };
}

// =====================================================================================
// C05.4 layered primitive == flooding check rule on the extrinsic values (8-bit)
// =====================================================================================
#[macro_export]
macro_rules! c05_layered_i8 {
    ($name:ident, $ty:ty, $d:expr, $unw:expr) => {
        $crate::with_table_stubs! { $unw,
        fn $name() {
            const D: usize = $d;
            let mut a = <$ty>::new();
            let mut b = <$ty>::new();
            let mut vars = [0i16; D + 2];
            vars[0] = kani::any();
            vars[1] = kani::any();
            let mut old = [0i8; D];
            let mut cm = [SentMessage { dest: 0usize, value: 0i8 }; D];
            let mut msgs = [Message { source: 0usize, value: 0i8 }; D];
            let mut j = 0;
            while j < D {
                let t = D + 1 - j;
                let o = $crate::macros::any_i8m();
                let v: i16 = kani::any();
                // reachable envelope |v| <= 127*(variable degree + 1), variable degree <= 200
                kani::assume(v >= -25527 && v <= 25527);
                old[j] = o;
                vars[t] = v;
                cm[j] = SentMessage { dest: t, value: o };
                let x = $crate::refmodels::clip127(v as i32 - o as i32);
                msgs[j] = Message { source: t, value: x as i8 };
                j += 1;
            }
            let vars0 = vars;
            a.update_check_messages_and_vars(&mut cm, &mut vars);
            let mut exp = [0i32; D];
            let mut cnt = [0u8; D];
            let mut bad = false;
            b.send_check_messages(&msgs, |m| {
                let j = (D + 1).wrapping_sub(m.dest);
                if j < D { exp[j] = m.value as i32; cnt[j] += 1; } else { bad = true; }
            });
            assert!(!bad);
            let mut j = 0;
            while j < D {
                let t = D + 1 - j;
                assert!(cnt[j] == 1);
                assert!(cm[j].dest == t);
                assert!(cm[j].value as i32 == exp[j]);
                assert!(vars[t] as i32 == vars0[t] as i32 - old[j] as i32 + exp[j]);
                j += 1;
            }
            // variables 0 and 1 are not connected to this check
            assert!(vars[0] == vars0[0] && vars[1] == vars0[1]);
            kani::cover!(cm[0].value > 3);
            kani::cover!(cm[0].value < -3);
            kani::cover!(vars[D + 1] > 20000);
        }}
    };
}

// =====================================================================================
// C05.4 layered primitive == flooding check rule on the extrinsic values (float types,
// SURROGATE math on both sides; inputs on the exact grid so that v - old is exact)
// =====================================================================================
#[macro_export]
macro_rules! c05_layered_f {
    ($name:ident, $ty:ty, $f:ty, $anyf:path, $d:expr, $unw:expr) => {
        $crate::with_surrogate_stubs! { $unw,
        fn $name() {
            const D: usize = $d;
            let mut a = <$ty>::new();
            let mut b = <$ty>::new();
            let mut vars = [0.0 as $f; D + 2];
            vars[0] = $anyf();
            vars[1] = $anyf();
            let mut old = [0.0 as $f; D];
            let mut cm = [SentMessage { dest: 0usize, value: 0.0 as $f }; D];
            let mut msgs = [Message { source: 0usize, value: 0.0 as $f }; D];
            let mut j = 0;
            while j < D {
                let t = D + 1 - j;
                let o: $f = $anyf();
                let v: $f = $anyf();
                old[j] = o;
                vars[t] = v;
                cm[j] = SentMessage { dest: t, value: o };
                msgs[j] = Message { source: t, value: v - o };
                j += 1;
            }
            let vars0 = vars;
            a.update_check_messages_and_vars(&mut cm, &mut vars);
            let mut exp = [0.0 as $f; D];
            let mut cnt = [0u8; D];
            let mut bad = false;
            b.send_check_messages(&msgs, |m| {
                let j = (D + 1).wrapping_sub(m.dest);
                if j < D { exp[j] = m.value; cnt[j] += 1; } else { bad = true; }
            });
            assert!(!bad);
            let mut j = 0;
            while j < D {
                let t = D + 1 - j;
                assert!(cnt[j] == 1);
                assert!(cm[j].dest == t);
                assert!(cm[j].value == exp[j]);
                // (v - old) + new, or the algebraically equal v + (new - old)
                let e1 = (vars0[t] - old[j]) + exp[j];
                let e2 = vars0[t] + (exp[j] - old[j]);
                assert!(vars[t] == e1 || vars[t] == e2);
                j += 1;
            }
            // variables 0 and 1 are not connected to this check
            assert!(vars[0] == vars0[0] && vars[1] == vars0[1]);
            kani::cover!(cm[0].value > 0.0);
            kani::cover!(cm[0].value < 0.0);
        }}
    };
}

// =====================================================================================
// C01 success => codeword, failure => non-codeword, iteration count.  One harness per
// implementation name x matrix x iteration limit; all LLRs symbolic with |x| <= 1e30.
// =====================================================================================
#[macro_export]
macro_rules! c01_body {
    ($sched:ident, $arith:ty, $hfn:ident, $syn:ident, $n:expr, $limit:expr, $cov_iter:expr) => {{
        const N: usize = $n;
        const LIMIT: usize = $limit;
        let mut llrs = [0.0f64; N];
        let mut i = 0;
        while i < N { llrs[i] = $crate::macros::any_f64_1e30(); i += 1; }
        let mut dec = ldpc_toolbox::decoder::$sched::Decoder::new($hfn(), <$arith>::new());
        let res = dec.decode(&llrs, LIMIT);
        let mut sign = [0u8; N];
        let mut i = 0;
        while i < N { sign[i] = if llrs[i] <= 0.0 { 1 } else { 0 }; i += 1; }
        let s0 = $syn(&sign);
        match &res {
            Ok(o) => {
                assert!(o.codeword.len() == N);
                assert!($syn(&o.codeword));
                assert!(o.iterations <= LIMIT);
                assert!((o.iterations == 0) == s0);
                if o.iterations == 0 {
                    let mut i = 0;
                    while i < N { assert!(o.codeword[i] == sign[i]); i += 1; }
                }
            }
            Err(o) => {
                assert!(o.codeword.len() == N);
                assert!(o.iterations == LIMIT);
                assert!(!s0);
                if LIMIT >= 1 { assert!(!$syn(&o.codeword)); }
            }
        }
        kani::cover!(matches!(&res, Ok(o) if o.iterations == 0));
        kani::cover!(res.is_err());
        if $cov_iter { kani::cover!(matches!(&res, Ok(o) if o.iterations >= 1)); }
        core::mem::forget(dec);
        core::mem::forget(res);
    }};
}

#[macro_export]
macro_rules! c01_i8 {
    ($name:ident, $sched:ident, $arith:ty, $hfn:ident, $syn:ident, $n:expr, $limit:expr, $cov_iter:expr, $unw:expr) => {
        $crate::with_table_stubs! { $unw,
        fn $name() { $crate::c01_body!($sched, $arith, $hfn, $syn, $n, $limit, $cov_iter) }}
    };
}
#[macro_export]
macro_rules! c01_f {
    ($name:ident, $sched:ident, $arith:ty, $hfn:ident, $syn:ident, $n:expr, $limit:expr, $cov_iter:expr, $unw:expr) => {
        $crate::with_contract_stubs! { $unw,
        fn $name() { $crate::c01_body!($sched, $arith, $hfn, $syn, $n, $limit, $cov_iter) }}
    };
}

// =====================================================================================
// C03 generic decoders == textbook schedules for a checker-supplied arithmetic
// =====================================================================================
#[macro_export]
macro_rules! c03_sched {
    ($name:ident, $sched:ident, $reffn:ident, $hfn:ident, $hb:ident, $r:expr, $n:expr, $limit:expr, $unw:expr) => {
        #[kani::proof]
        #[kani::unwind($unw)]
        fn $name() {
            const N: usize = $n;
            const R: usize = $r;
            const LIMIT: usize = $limit;
            let mut k = [0i32; N];
            let mut llrs = [0.0f64; N];
            let mut i = 0;
            while i < N {
                let v: i32 = kani::any();
                kani::assume(v >= -(1 << 20) && v <= (1 << 20));
                k[i] = v;
                llrs[i] = v as f64;
                i += 1;
            }
            let mut dec = ldpc_toolbox::decoder::$sched::Decoder::new($hfn(), $crate::minsum::MinSumI32::default());
            let res = dec.decode(&llrs, LIMIT);
            let (ok, word, it) = $crate::refmodels::$reffn::<R, N>(&$hb, &k, LIMIT);
            let (rok, o) = match &res { Ok(o) => (true, o), Err(o) => (false, o) };
            assert!(rok == ok);
            assert!(o.iterations == it);
            assert!(o.codeword.len() == N);
            let mut i = 0;
            while i < N { assert!(o.codeword[i] == word[i]); i += 1; }
            kani::cover!(ok && it == 0);
            kani::cover!(!ok);
            kani::cover!(ok && it >= 1 || LIMIT == 0);
            core::mem::forget(dec);
            core::mem::forget(res);
        }
    };
}

// =====================================================================================
// C02 core: Gauss-Jordan reduction over GF(2), every entry of an R x N matrix symbolic
// =====================================================================================
#[macro_export]
macro_rules! c02_gauss {
    ($name:ident, $r:expr, $n:expr, $unw:expr) => {
        #[kani::proof]
        #[kani::unwind($unw)]
        fn $name() {
            const R: usize = $r;
            const N: usize = $n;
            let mut a = Array2::<GF2>::zeros((R, N));
            let mut b = [[false; N]; R];
            let mut i = 0;
            while i < R {
                let mut j = 0;
                while j < N {
                    let x: bool = kani::any();
                    b[i][j] = x;
                    a[[i, j]] = if x { GF2::one() } else { GF2::zero() };
                    j += 1;
                }
                i += 1;
            }
            let res = gauss_reduction(&mut a);
            // reference: the left R x R block is singular iff some non-empty set of its rows
            // sums to zero
            let mut singular = false;
            let mut mask = 1usize;
            while mask < (1 << R) {
                let mut zero = true;
                let mut j = 0;
                while j < R {
                    let mut s = false;
                    let mut i = 0;
                    while i < R { if (mask >> i) & 1 == 1 { s ^= b[i][j]; } i += 1; }
                    if s { zero = false; }
                    j += 1;
                }
                if zero { singular = true; }
                mask += 1;
            }
            assert!(res.is_err() == singular);
            if res.is_ok() {
                // [I | X] ...
                let mut i = 0;
                while i < R {
                    let mut j = 0;
                    while j < R {
                        assert!(a[[i, j]].is_one() == (i == j));
                        assert!(a[[i, j]].is_one() || a[[i, j]].is_zero());
                        j += 1;
                    }
                    i += 1;
                }
                // ... with B * X == C for the input [B | C]
                let mut i = 0;
                while i < R {
                    let mut j = R;
                    while j < N {
                        let mut s = false;
                        let mut k = 0;
                        while k < R { s ^= b[i][k] && a[[k, j]].is_one(); k += 1; }
                        assert!(s == b[i][j]);
                        assert!(a[[i, j]].is_one() || a[[i, j]].is_zero());
                        j += 1;
                    }
                    i += 1;
                }
            }
            kani::cover!(res.is_ok());
            kani::cover!(res.is_err());
            kani::cover!(res.is_ok() && !b[0][0]);
            core::mem::forget(a);
        }
    };
}

/// GF(2) field operations: all operand values.
#[macro_export]
macro_rules! c02_gf2 {
    ($name:ident) => {
        #[kani::proof]
        #[kani::unwind(4)]
        fn $name() {
            let x: bool = kani::any();
            let y: bool = kani::any();
            let g = |b: bool| if b { GF2::one() } else { GF2::zero() };
            assert!((g(x) + g(y)) == g(x ^ y));
            assert!((g(x) - g(y)) == g(x ^ y));
            assert!((g(x) * g(y)) == g(x && y));
            assert!((g(x) / GF2::one()) == g(x));
            assert!(g(x).is_one() == x && g(x).is_zero() == !x);
            let mut z = g(x); z += g(y); assert!(z == g(x ^ y));
            let mut z = g(x); z *= g(y); assert!(z == g(x && y));
            kani::cover!(x && y);
        }
    };
}

/// Division by zero panics (for the given dividend).
#[macro_export]
macro_rules! c02_gf2_div0 {
    ($name:ident, $x:expr) => {
        #[kani::proof]
        #[kani::unwind(4)]
        #[kani::should_panic]
        fn $name() {
            let g = if $x { GF2::one() } else { GF2::zero() };
            let _ = g / GF2::zero();
        }
    };
}

// =====================================================================================
// C09 core: row echelon form over GF(2), every entry of an R x N matrix symbolic
// =====================================================================================
#[macro_export]
macro_rules! c09_echelon {
    ($name:ident, $r:expr, $n:expr, $unw:expr) => {
        #[kani::proof]
        #[kani::unwind($unw)]
        fn $name() {
            const R: usize = $r;
            const N: usize = $n;
            let mut a = Array2::<GF2>::zeros((R, N));
            let mut b = [[false; N]; R];
            let mut i = 0;
            while i < R {
                let mut j = 0;
                while j < N {
                    let x: bool = kani::any();
                    b[i][j] = x;
                    a[[i, j]] = if x { GF2::one() } else { GF2::zero() };
                    j += 1;
                }
                i += 1;
            }
            row_echelon_form(&mut a);
            let mut e = [[false; N]; R];
            let mut i = 0;
            while i < R {
                let mut j = 0;
                while j < N {
                    assert!(a[[i, j]].is_one() || a[[i, j]].is_zero());
                    e[i][j] = a[[i, j]].is_one();
                    j += 1;
                }
                i += 1;
            }
            // (1) echelon shape: leading columns strictly increase, zero rows at the bottom
            let mut lead = [N; R];
            let mut i = 0;
            while i < R {
                let mut j = N;
                while j > 0 { j -= 1; if e[i][j] { lead[i] = j; } }
                i += 1;
            }
            let mut i = 1;
            while i < R {
                assert!(lead[i] == N || lead[i] > lead[i - 1]);
                if lead[i - 1] == N { assert!(lead[i] == N); }
                i += 1;
            }
            // (2) row equivalence, both directions: every output row is a combination of input
            // rows and every input row is a combination of output rows
            let mut i = 0;
            while i < R {
                let mut found_out = false;
                let mut found_in = false;
                let mut mask = 0usize;
                while mask < (1 << R) {
                    let mut eq_out = true;
                    let mut eq_in = true;
                    let mut j = 0;
                    while j < N {
                        let mut s_in = false;
                        let mut s_out = false;
                        let mut k = 0;
                        while k < R {
                            if (mask >> k) & 1 == 1 { s_in ^= b[k][j]; s_out ^= e[k][j]; }
                            k += 1;
                        }
                        if s_in != e[i][j] { eq_out = false; }
                        if s_out != b[i][j] { eq_in = false; }
                        j += 1;
                    }
                    if eq_out { found_out = true; }
                    if eq_in { found_in = true; }
                    mask += 1;
                }
                assert!(found_out);
                assert!(found_in);
                i += 1;
            }
            // (3) rank test used by the conversion: last row non-zero <=> input has full row rank
            let mut dependent = false;
            let mut mask = 1usize;
            while mask < (1 << R) {
                let mut zero = true;
                let mut j = 0;
                while j < N {
                    let mut s = false;
                    let mut k = 0;
                    while k < R { if (mask >> k) & 1 == 1 { s ^= b[k][j]; } k += 1; }
                    if s { zero = false; }
                    j += 1;
                }
                if zero { dependent = true; }
                mask += 1;
            }
            assert!((lead[R - 1] != N) == !dependent);
            // (4) full rank: the pivot columns form an invertible R x R submatrix of the INPUT
            if !dependent {
                let mut mask = 1usize;
                while mask < (1 << R) {
                    let mut zero = true;
                    let mut p = 0;
                    while p < R {
                        let mut s = false;
                        let mut k = 0;
                        while k < R { if (mask >> k) & 1 == 1 { s ^= b[k][lead[p]]; } k += 1; }
                        if s { zero = false; }
                        p += 1;
                    }
                    assert!(!zero);
                    mask += 1;
                }
            }
            kani::cover!(!dependent);
            kani::cover!(dependent);
            kani::cover!(!dependent && lead[R - 1] == N - 1 && lead[0] > 0);
            core::mem::forget(a);
        }
    };
}

// =====================================================================================
// C15 interleaver: index law and inverse, concrete shape (C columns, R rows), contents
// symbolic
// =====================================================================================
#[macro_export]
macro_rules! c15_interleave {
    ($name:ident, $t:ty, $c:expr, $r:expr, $back:expr, $unw:expr) => {
        #[kani::proof]
        #[kani::unwind($unw)]
        fn $name() {
            const C: usize = $c;
            const R: usize = $r;
            const L: usize = C * R;
            let x: [$t; L] = kani::any();
            let il = Interleaver::new(C, $back);
            let y = il.interleave(&ndarray::arr1(&x));
            assert!(y.len() == L);
            let mut r = 0;
            while r < R {
                let mut c = 0;
                while c < C {
                    // column-write / row-read; columns taken in reverse order when reading backwards
                    let src = if $back { (C - 1 - c) * R + r } else { c * R + r };
                    assert!(y[r * C + c] == x[src]);
                    c += 1;
                }
                r += 1;
            }
            let z = il.deinterleave(y.as_slice().unwrap());
            assert!(z.len() == L);
            let mut i = 0;
            while i < L { assert!(z[i] == x[i]); i += 1; }
            // (interleave is a bijection by the index law, so this left inverse is the inverse)
            kani::cover!(y[L - 1] != y[0] || L == 1);
            core::mem::forget(y); core::mem::forget(z);
        }
    };
}

// =====================================================================================
// C15 puncturer: concrete pattern (enumerated by the driver), block size BS, contents
// symbolic; divisibility errors
// =====================================================================================
#[macro_export]
macro_rules! c15_puncture {
    ($name:ident, $pat:expr, $p:expr, $bs:expr, $unw:expr) => {
        #[kani::proof]
        #[kani::unwind($unw)]
        fn $name() {
            const P: usize = $p;
            const BS: usize = $bs;
            const L: usize = P * BS;
            let pat: [bool; P] = $pat;
            let mut trues = 0usize;
            let mut k = 0;
            while k < P { if pat[k] { trues += 1; } k += 1; }
            let x: [u8; L] = kani::any();
            let pu = Puncturer::new(&pat);
            let y = pu.puncture(&ndarray::arr1(&x)).unwrap();
            assert!(y.len() == trues * BS);
            // kept blocks, in order
            let mut j = 0usize;
            let mut k = 0;
            while k < P {
                if pat[k] {
                    let mut t = 0;
                    while t < BS { assert!(y[j * BS + t] == x[k * BS + t]); t += 1; }
                    j += 1;
                }
                k += 1;
            }
            // depuncture restores the kept blocks and fills the rest with exact zeros
            let z = pu.depuncture(y.as_slice().unwrap()).unwrap();
            assert!(z.len() == L);
            let mut k = 0;
            while k < P {
                let mut t = 0;
                while t < BS {
                    if pat[k] { assert!(z[k * BS + t] == x[k * BS + t]); } else { assert!(z[k * BS + t] == 0); }
                    t += 1;
                }
                k += 1;
            }
            // f64 LLRs: neutral value is exactly +0.0
            let mut l = [0.0f64; L];
            let mut i = 0;
            while i < trues * BS { l[i] = kani::any(); i += 1; }
            let zf = pu.depuncture(&l[..trues * BS]).unwrap();
            assert!(zf.len() == L);
            let mut j = 0usize;
            let mut k = 0;
            while k < P {
                let mut t = 0;
                while t < BS {
                    if pat[k] { assert!(zf[k * BS + t].to_bits() == l[j * BS + t].to_bits()); }
                    else { assert!(zf[k * BS + t].to_bits() == 0); }
                    t += 1;
                }
                if pat[k] { j += 1; }
                k += 1;
            }
            // rate = pattern length / kept blocks
            assert!(pu.rate() == (P as f64) / (trues as f64));
            // lengths that do not divide give an error, not a panic / truncated result
            if P > 1 {
                let bad = [0u8; L + 1];
                assert!(pu.puncture(&ndarray::arr1(&bad)).is_err());
            }
            if trues > 1 {
                let badl = [0u8; L + 1];
                // (trues*BS + 1) is not divisible by trues
                assert!(pu.depuncture(&badl[..trues * BS + 1]).is_err());
            }
            kani::cover!(x[0] != 0);
            core::mem::forget(y); core::mem::forget(z); core::mem::forget(zf);
        }
    };
}

// =====================================================================================
// C06 DVB-S2: parameters and tables of one code identifier (hooks)
// =====================================================================================
#[macro_export]
macro_rules! c06_code {
    ($name:ident, $code:ident, $n:expr, $k:expr, $q:expr, $pin:ident, $prof_hi:expr, $n_hi:expr, $unw:expr) => {
        #[kani::proof]
        #[kani::unwind($unw)]
        fn $name() {
            let code = Code::$code;
            let (n, m, k, q) = code.verif_params();
            // (a) the standard's parameters
            assert!(n == $n);
            assert!(k == $k);
            assert!(q == $q);
            assert!(m == n - k);
            assert!(m == 360 * q);
            let tab = code.verif_addresses();
            // one address row per group of 360 information bits
            assert!(tab.len() == k / 360);
            assert!(tab.len() == $pin.len());
            // (b) column-degree profile: the first groups have the high degree, the rest degree 3
            let mut t = 0;
            let mut hi = 0usize;
            while t < tab.len() {
                let l = tab[t].len();
                assert!(l == $prof_hi || l == 3);
                if l == $prof_hi && $prof_hi != 3 { hi += 1; }
                assert!(l == $pin[t].len());
                t += 1;
            }
            assert!(hi == $n_hi);
            // symbolic (t, i, i2): range, distinctness within a row, equality with the pinned copy
            let t: usize = kani::any();
            let i: usize = kani::any();
            let i2: usize = kani::any();
            kani::assume(t < tab.len());
            kani::assume(i < tab[t].len() && i2 < tab[t].len());
            assert!(tab[t][i] < m);
            if i != i2 { assert!(tab[t][i] != tab[t][i2]); }
            assert!(tab[t][i] == $pin[t][i]);
            kani::cover!(t == tab.len() - 1 && i == 2);
            kani::cover!(t == 0 && i == 1 && i2 == 0);
        }
    };
}

// =====================================================================================
// C07 CCSDS: M table, pi_k kernel (fully symbolic k, i), theta/phi tables, C2 circulants
// =====================================================================================
#[macro_export]
macro_rules! c07_pi {
    ($name:ident, $rate:ident, $size:ident, $m:expr, $mi:expr, $unw:expr) => {
        #[kani::proof]
        #[kani::unwind($unw)]
        fn $name() {
            const M: usize = $m;
            let code = AR4JACode::new(AR4JARate::$rate, AR4JAInfoSize::$size);
            // (a) Blue Book table of M
            assert!(code.verif_m() == M);
            let k: usize = kani::any();
            let i: usize = kani::any();
            let i2: usize = kani::any();
            kani::assume(k >= 1 && k <= 26);
            kani::assume(i < M && i2 < M);
            let p = code.verif_pi(k, i);
            assert!(p < M);
            // quarter structure against the pinned theta / phi tables
            let j = 4 * i / M;
            let theta = PIN_THETA[k - 1];
            let phi = PIN_PHI[$mi][j][k - 1];
            assert!(AR4JACode::verif_theta(k) == theta);
            assert!(code.verif_phi(k, j) == phi);
            assert!(p == (M / 4) * ((theta + j) % 4) + (phi + i) % (M / 4));
            // permutation: injective on 0..M
            let p2 = code.verif_pi(k, i2);
            if i != i2 { assert!(p != p2); }
            // circulant sub-blocks: inside a quarter, consecutive inputs map to cyclically
            // consecutive outputs of one quarter
            if i + 1 < M && 4 * (i + 1) / M == j {
                let pn = code.verif_pi(k, i + 1);
                assert!(pn / (M / 4) == p / (M / 4));
                assert!(pn % (M / 4) == (p % (M / 4) + 1) % (M / 4));
            }
            kani::cover!(k == 26 && i == M - 1);
            kani::cover!(k == 1 && i == 0);
        }
    };
}

#[macro_export]
macro_rules! c07_c2 {
    ($name:ident) => {
        #[kani::proof]
        #[kani::unwind(20)]
        fn $name() {
            let c = C2Code::verif_circulants();
            let r: usize = kani::any();
            let b: usize = kani::any();
            kani::assume(r < 2 && b < 16);
            let e = c[r][b];
            assert!(e[0] < 511 && e[1] < 511);
            assert!(e[0] != e[1]);
            assert!(e[0] == PIN_C2[r][b][0] && e[1] == PIN_C2[r][b][1]);
            kani::cover!(r == 1 && b == 15);
        }
    };
}

// =====================================================================================
// C14 demodulators / modulators
// =====================================================================================
#[macro_export]
macro_rules! c14_bpsk {
    ($name:ident, $sigma:expr, $scale_bits:expr) => {
        #[kani::proof]
        #[kani::unwind(6)]
        fn $name() {
            // all inputs first
            let x0: f64 = kani::any();
            kani::assume(x0.is_finite());
            let k: i8 = kani::any();
            let e: u8 = kani::any();
            kani::assume(e < 3);
            let b: bool = kani::any();
            // small exact domain k * 2^-e' (a full-width product compared with a second full-width product
            // is a multiplier miter; the constant itself is pinned exactly by the sample 1.0)
            let xs = (k as f64) * (if e == 0 { 1.0 } else if e == 1 { 0.125 } else { 9.313225746154785e-10 });
            let d = BpskDemodulator::from_noise_sigma($sigma);
            let y = d.demodulate(&[x0, 1.0, xs]);
            assert!(y.len() == 3);
            // closed form of log P(0|r)/P(1|r) for the mapping 0 -> -1, 1 -> +1: -2 r / sigma^2
            let s = f64::from_bits($scale_bits);
            assert!(y[1].to_bits() == s.to_bits());
            assert!(y[2].to_bits() == (s * xs).to_bits());
            // every finite sample: never NaN, sign opposite to the sample's (scale is negative), zero iff zero
            // or underflow
            assert!(!y[0].is_nan());
            if x0 > 0.0 { assert!(y[0] <= 0.0); }
            if x0 < 0.0 { assert!(y[0] >= 0.0); }
            if x0 == 0.0 { assert!(y[0] == 0.0); }
            if x0 >= 1.0e-300 && x0 <= 1.0e300 { assert!(y[0] < 0.0); }
            // the mapping itself
            let m = BpskModulator::new().modulate(&ndarray::arr1(&[if b { GF2::one() } else { GF2::zero() }]));
            assert!(m.len() == 1);
            assert!(m[0] == if b { 1.0 } else { -1.0 });
            // noiseless round trip: hard decision (LLR <= 0 means 1) returns the bit
            let z = d.demodulate(&m);
            assert!((z[0] <= 0.0) == b);
            kani::cover!(y[0] > 0.0 && y[2] < 0.0);
            core::mem::forget(y); core::mem::forget(m); core::mem::forget(z);
        }
    };
}

/// octant (multiples of pi/4) of the DVB-S2 8PSK Gray mapping, first bit = MSB
#[inline]
pub fn psk8_octant(b0: bool, b1: bool, b2: bool) -> usize {
    match (b0, b1, b2) {
        (false, false, false) => 1,
        (false, false, true) => 0,
        (true, false, true) => 7,
        (true, true, true) => 6,
        (false, true, true) => 5,
        (false, true, false) => 4,
        (true, true, false) => 3,
        (true, false, false) => 2,
    }
}

/// unit vector of an octant; `a` is the value used for sqrt(1/2)
#[inline]
pub fn psk8_point(o: usize, a: f64) -> (f64, f64) {
    match o % 8 {
        0 => (1.0, 0.0),
        1 => (a, a),
        2 => (0.0, 1.0),
        3 => (-a, a),
        4 => (-1.0, 0.0),
        5 => (-a, -a),
        6 => (0.0, -1.0),
        _ => (a, -a),
    }
}

#[macro_export]
macro_rules! c14_psk8_mod {
    ($name:ident) => {
        #[kani::proof]
        #[kani::unwind(10)]
        fn $name() {
            let bits: [bool; 6] = kani::any();
            let g = |b: bool| if b { GF2::one() } else { GF2::zero() };
            let cw = ndarray::arr1(&[g(bits[0]), g(bits[1]), g(bits[2]), g(bits[3]), g(bits[4]), g(bits[5])]);
            let s = Psk8Modulator::new().modulate(&cw);
            assert!(s.len() == 2);
            let a = (0.5f64).sqrt();
            let mut k = 0;
            while k < 2 {
                let o = $crate::macros::psk8_octant(bits[3 * k], bits[3 * k + 1], bits[3 * k + 2]);
                let (re, im) = $crate::macros::psk8_point(o, a);
                // bit order: first bit of each triple is the MSB of that symbol
                assert!(s[k].re == re && s[k].im == im);
                // unit energy
                let e = s[k].re * s[k].re + s[k].im * s[k].im - 1.0;
                assert!(e <= 4.0 * f64::EPSILON && e >= -4.0 * f64::EPSILON);
                k += 1;
            }
            // Gray: flipping one bit moves by one octant for exactly ... neighbours differ in one bit
            let t: [bool; 3] = kani::any();
            let u: [bool; 3] = kani::any();
            let ot = $crate::macros::psk8_octant(t[0], t[1], t[2]);
            let ou = $crate::macros::psk8_octant(u[0], u[1], u[2]);
            if (ot + 1) % 8 == ou {
                let diff = (t[0] != u[0]) as u8 + (t[1] != u[1]) as u8 + (t[2] != u[2]) as u8;
                assert!(diff == 1);
            }
            kani::cover!(s[0].re < 0.0 && s[1].im < 0.0);
            core::mem::forget(s); core::mem::forget(cw);
        }
    };
}

/// 8PSK demodulator: constellation point + bounded perturbation, CONTRACT stubs for the
/// max* correction term: hard decisions return the transmitted triple, in modulator bit order.
#[macro_export]
macro_rules! c14_psk8_demod {
    ($name:ident, $sigma:expr, $eps:expr, $mag:expr) => {
        $crate::with_contract_stubs! { 10,
        fn $name() {
            let bits: [bool; 3] = kani::any();
            let ere: f64 = kani::any();
            let eim: f64 = kani::any();
            kani::assume(ere >= -$eps && ere <= $eps && eim >= -$eps && eim <= $eps);
            let g = |b: bool| if b { GF2::one() } else { GF2::zero() };
            let cw = ndarray::arr1(&[g(bits[0]), g(bits[1]), g(bits[2])]);
            let s = Psk8Modulator::new().modulate(&cw);
            let r = Complex::new(s[0].re + ere, s[0].im + eim);
            let d = Psk8Demodulator::from_noise_sigma($sigma);
            let l = d.demodulate(&[r]);
            assert!(l.len() == 3);
            let mut i = 0;
            while i < 3 {
                // positive LLR <=> bit 0
                if bits[i] { assert!(l[i] < 0.0); } else { assert!(l[i] > 0.0); }
                i += 1;
            }
            if $mag {
                // (noiseless variant only: with a symbolic perturbation the second set of products is a multiplier
                // miter that does not finish)
                // independent max-log reference from the pinned constellation: for each bit, the best metric
                // <r, s>/sigma^2 among the four labels with that bit 0, minus the best among the four with bit 1
                let a = (0.5f64).sqrt();
                let scale = 1.0 / ($sigma * $sigma);
                let mut best = [[f64::NEG_INFINITY; 2]; 3];
                let mut lab = 0usize;
                while lab < 8 {
                    let lb = [(lab >> 2) & 1 == 1, (lab >> 1) & 1 == 1, lab & 1 == 1];
                    let (pr, pi) = $crate::macros::psk8_point($crate::macros::psk8_octant(lb[0], lb[1], lb[2]), a);
                    let m = (r.re * pr + r.im * pi) * scale;
                    let mut b = 0;
                    while b < 3 {
                        let side = if lb[b] { 1 } else { 0 };
                        if m > best[b][side] { best[b][side] = m; }
                        b += 1;
                    }
                    lab += 1;
                }
                let mut i = 0;
                while i < 3 {
                    // each max* over four metrics lies in [max, max + ln 4]; with the pairwise CONTRACT bound 3*0.6932.
                    // So the LLR is the max-log value up to +-2.08 (plus float slack): pins the bit partitions and
                    // constants of the demapper
                    let ml = best[i][0] - best[i][1];
                    assert!(l[i] >= ml - 2.0797 - 1.0e-6 * scale);
                    assert!(l[i] <= ml + 2.0797 + 1.0e-6 * scale);
                    i += 1;
                }
            }
            kani::cover!(bits[0] && !bits[1] && bits[2]);
            core::mem::forget(s); core::mem::forget(cw); core::mem::forget(l);
        }}
    };
}

// =====================================================================================
// Two-run helpers: LLR domain s * 2^-e, s in [-127,127], e in {0,3,30}
// =====================================================================================
#[cfg(kani)]
#[inline]
pub fn any_llr_dom() -> f64 {
    let s = any_i8m() as f64;
    // (no assume on the selector: every byte is a valid selector, which keeps neighbourhood replays valid)
    let e: u8 = kani::any::<u8>() % 3;
    if e == 0 { s } else if e == 1 { s * 0.125 } else { s * 9.313225746154785e-10 }
}

pub trait DomAny { fn dom_any() -> Self; }
#[cfg(kani)]
impl DomAny for i8 { fn dom_any() -> i8 { any_i8m() } }
#[cfg(kani)]
impl DomAny for i16 { fn dom_any() -> i16 { let v: i16 = kani::any(); kani::assume(v >= -25527 && v <= 25527); v } }
#[cfg(kani)]
impl DomAny for f64 { fn dom_any() -> f64 { any_f64_small() } }
#[cfg(kani)]
impl DomAny for f32 { fn dom_any() -> f32 { any_f32_small() } }

#[inline]
pub fn same_output(a: &Result<ldpc_toolbox::decoder::DecoderOutput, ldpc_toolbox::decoder::DecoderOutput>,
                   b: &Result<ldpc_toolbox::decoder::DecoderOutput, ldpc_toolbox::decoder::DecoderOutput>, n: usize) -> bool {
    let (oka, oa) = match a { Ok(o) => (true, o), Err(o) => (false, o) };
    let (okb, ob) = match b { Ok(o) => (true, o), Err(o) => (false, o) };
    if oka != okb || oa.iterations != ob.iterations || oa.codeword.len() != n || ob.codeword.len() != n { return false; }
    let mut i = 0;
    while i < n { if oa.codeword[i] != ob.codeword[i] { return false; } i += 1; }
    true
}

// =====================================================================================
// C10.3 havoc-inductive statelessness: a decoder whose every value cell holds arbitrary
// data decodes exactly like a fresh one.  $stubs: with_table_stubs | with_surrogate_stubs
// =====================================================================================
#[macro_export]
macro_rules! c10_havoc_flooding {
    ($name:ident, $stubs:ident, $arith:ty, $hfn:ident, $n:expr, $limit:expr, $unw:expr) => {
        $crate::$stubs! { $unw,
        fn $name() {
            const N: usize = $n;
            let mut llrs = [0.0f64; N];
            let mut i = 0;
            while i < N { llrs[i] = $crate::macros::any_llr_dom(); i += 1; }
            let mut d1 = ldpc_toolbox::decoder::flooding::Decoder::new($hfn(), <$arith>::new());
            let mut d2 = ldpc_toolbox::decoder::flooding::Decoder::new($hfn(), <$arith>::new());
            d1.verif_havoc(
                || <<$arith as DecoderArithmetic>::Llr as $crate::macros::DomAny>::dom_any(),
                || <<$arith as DecoderArithmetic>::CheckMessage as $crate::macros::DomAny>::dom_any(),
                || <<$arith as DecoderArithmetic>::VarMessage as $crate::macros::DomAny>::dom_any());
            let r1 = d1.decode(&llrs, $limit);
            let r2 = d2.decode(&llrs, $limit);
            assert!($crate::macros::same_output(&r1, &r2, N));
            kani::cover!(r2.is_err());
            kani::cover!(r2.is_ok());
            core::mem::forget(d1); core::mem::forget(d2); core::mem::forget(r1); core::mem::forget(r2);
        }}
    };
}

#[macro_export]
macro_rules! c10_havoc_layered {
    ($name:ident, $stubs:ident, $arith:ty, $hfn:ident, $n:expr, $limit:expr, $unw:expr) => {
        $crate::$stubs! { $unw,
        fn $name() {
            const N: usize = $n;
            let mut llrs = [0.0f64; N];
            let mut i = 0;
            while i < N { llrs[i] = $crate::macros::any_llr_dom(); i += 1; }
            let mut d1 = ldpc_toolbox::decoder::horizontal_layered::Decoder::new($hfn(), <$arith>::new());
            let mut d2 = ldpc_toolbox::decoder::horizontal_layered::Decoder::new($hfn(), <$arith>::new());
            d1.verif_havoc(
                || <<$arith as DecoderArithmetic>::VarLlr as $crate::macros::DomAny>::dom_any(),
                || <<$arith as DecoderArithmetic>::CheckMessage as $crate::macros::DomAny>::dom_any());
            let r1 = d1.decode(&llrs, $limit);
            let r2 = d2.decode(&llrs, $limit);
            assert!($crate::macros::same_output(&r1, &r2, N));
            kani::cover!(r2.is_err());
            kani::cover!(r2.is_ok());
            core::mem::forget(d1); core::mem::forget(d2); core::mem::forget(r1); core::mem::forget(r2);
        }}
    };
}

// =====================================================================================
// C10.2 real history through the factory: decode(A, limA) then decode(B, 0) on the same
// object vs decode(B, 0) on a fresh object
// =====================================================================================
#[macro_export]
macro_rules! c10_zero_iter {
    ($name:ident, $stubs:ident, $sched:ident, $arith:ty, $hfn:ident, $n:expr, $lima:expr, $unw:expr) => {
        $crate::$stubs! { $unw,
        fn $name() {
            const N: usize = $n;
            let mut a = [0.0f64; N];
            let mut b = [0.0f64; N];
            let mut i = 0;
            while i < N { a[i] = $crate::macros::any_llr_dom(); b[i] = $crate::macros::any_llr_dom(); i += 1; }
            let mut d1 = ldpc_toolbox::decoder::$sched::Decoder::new($hfn(), <$arith>::new());
            let mut d2 = ldpc_toolbox::decoder::$sched::Decoder::new($hfn(), <$arith>::new());
            let r0 = d1.decode(&a, $lima);
            let r1 = d1.decode(&b, 0);
            let r2 = d2.decode(&b, 0);
            assert!($crate::macros::same_output(&r1, &r2, N));
            kani::cover!(r2.is_err());
            kani::cover!(r2.is_ok());
            core::mem::forget(d1); core::mem::forget(d2); core::mem::forget(r0); core::mem::forget(r1); core::mem::forget(r2);
        }}
    };
}

// =====================================================================================
// C10.1 arithmetic scratch: one arithmetic object used for (op A) then (op B) emits for B
// exactly what a fresh object emits.  ops: 0 = send_check_messages, 1 = layered update
// =====================================================================================
#[macro_export]
macro_rules! c10_scratch {
    ($name:ident, $stubs:ident, $arith:ty, $opa:expr, $opb:expr, $da:expr, $db:expr, $unw:expr) => {
        $crate::$stubs! { $unw,
        fn $name() {
            type VM = <$arith as DecoderArithmetic>::VarMessage;
            type CM = <$arith as DecoderArithmetic>::CheckMessage;
            type VL = <$arith as DecoderArithmetic>::VarLlr;
            const DA: usize = $da;
            const DB: usize = $db;
            // all inputs first
            let mut va = [<VM as Default>::default(); DA];
            let mut ca = [<CM as Default>::default(); DA];
            let mut la = [<VL as Default>::default(); DA];
            let mut i = 0;
            while i < DA {
                va[i] = <VM as $crate::macros::DomAny>::dom_any();
                ca[i] = <CM as $crate::macros::DomAny>::dom_any();
                la[i] = <VL as $crate::macros::DomAny>::dom_any();
                i += 1;
            }
            let mut vb = [<VM as Default>::default(); DB];
            let mut cb = [<CM as Default>::default(); DB];
            let mut lb = [<VL as Default>::default(); DB];
            let mut i = 0;
            while i < DB {
                vb[i] = <VM as $crate::macros::DomAny>::dom_any();
                cb[i] = <CM as $crate::macros::DomAny>::dom_any();
                lb[i] = <VL as $crate::macros::DomAny>::dom_any();
                i += 1;
            }
            let mut used = <$arith>::new();
            let mut fresh = <$arith>::new();
            // op A on `used`
            if $opa == 0 {
                let mut m = [Message { source: 0usize, value: <VM as Default>::default() }; DA];
                let mut i = 0;
                while i < DA { m[i] = Message { source: i, value: va[i] }; i += 1; }
                used.send_check_messages(&m, |_| {});
            } else {
                let mut m = [SentMessage { dest: 0usize, value: <CM as Default>::default() }; DA];
                let mut vars = la;
                let mut i = 0;
                while i < DA { m[i] = SentMessage { dest: i, value: ca[i] }; i += 1; }
                used.update_check_messages_and_vars(&mut m, &mut vars);
            }
            // op B on both
            if $opb == 0 {
                let mut m = [Message { source: 0usize, value: <VM as Default>::default() }; DB];
                let mut i = 0;
                while i < DB { m[i] = Message { source: i, value: vb[i] }; i += 1; }
                let mut o1 = [<CM as Default>::default(); DB];
                let mut o2 = [<CM as Default>::default(); DB];
                let mut n1 = 0usize;
                let mut n2 = 0usize;
                used.send_check_messages(&m, |s| { if s.dest < DB { o1[s.dest] = s.value; } n1 += 1; });
                fresh.send_check_messages(&m, |s| { if s.dest < DB { o2[s.dest] = s.value; } n2 += 1; });
                assert!(n1 == n2);
                let mut i = 0;
                while i < DB { assert!(o1[i] == o2[i]); i += 1; }
            } else {
                let mut m1 = [SentMessage { dest: 0usize, value: <CM as Default>::default() }; DB];
                let mut i = 0;
                while i < DB { m1[i] = SentMessage { dest: i, value: cb[i] }; i += 1; }
                let mut m2 = m1;
                let mut v1 = lb;
                let mut v2 = lb;
                used.update_check_messages_and_vars(&mut m1, &mut v1);
                fresh.update_check_messages_and_vars(&mut m2, &mut v2);
                let mut i = 0;
                while i < DB {
                    assert!(m1[i].value == m2[i].value && m1[i].dest == m2[i].dest);
                    assert!(v1[i] == v2[i]);
                    i += 1;
                }
            }
            kani::cover!(true);
        }}
    };
}

// =====================================================================================
// C18 names: parsing of an arbitrary string, printing, value list, factory pairing
// =====================================================================================
#[macro_export]
macro_rules! c18_fromstr {
    ($name:ident, $maxlen:expr, $unw:expr) => {
        #[kani::proof]
        #[kani::unwind($unw)]
        fn $name() {
            const L: usize = $maxlen;
            let bytes: [u8; L] = kani::any();
            let len: usize = kani::any();
            kani::assume(len <= L);
            let mut i = 0;
            while i < L { kani::assume(bytes[i] < 128); i += 1; }
            let s = unsafe { core::str::from_utf8_unchecked(&bytes[..len]) };
            let r = <DecoderImplementation as core::str::FromStr>::from_str(s);
            // membership in the pinned list of 36 names
            let mut member = 36usize;
            let mut k = 0;
            while k < 36 {
                let nm = NAMES[k].as_bytes();
                if nm.len() == len {
                    let mut eq = true;
                    let mut j = 0;
                    while j < nm.len() { if nm[j] != bytes[j] { eq = false; } j += 1; }
                    if eq { member = k; }
                }
                k += 1;
            }
            match r {
                Ok(v) => { assert!(member < 36); assert!(v == VARIANTS[member]); }
                Err(_) => { assert!(member == 36); }
            }
            kani::cover!(member == 35);
            kani::cover!(member == 36 && len == 44);
            kani::cover!(member == 13);
        }
    };
}

/// byte sink for Display without allocation
pub struct ByteSink { pub buf: [u8; 64], pub len: usize }
impl core::fmt::Write for ByteSink {
    fn write_str(&mut self, s: &str) -> core::fmt::Result {
        let b = s.as_bytes();
        let mut i = 0;
        while i < b.len() {
            if self.len >= 64 { return Err(core::fmt::Error); }
            self.buf[self.len] = b[i];
            self.len += 1;
            i += 1;
        }
        Ok(())
    }
}

#[macro_export]
macro_rules! c18_name {
    ($name:ident, $idx:expr, $unw:expr, [$($near:expr),*]) => {
        #[kani::proof]
        #[kani::unwind($unw)]
        fn $name() {
            use core::fmt::Write;
            let v = VARIANTS[$idx];
            let nm = NAMES[$idx];
            // parses from its string
            assert!(<DecoderImplementation as core::str::FromStr>::from_str(nm) == Ok(v));
            // prints back to the identical string
            let mut sink = $crate::macros::ByteSink { buf: [0u8; 64], len: 0 };
            assert!(write!(sink, "{}", v).is_ok());
            assert!(sink.len == nm.len());
            let b = nm.as_bytes();
            let mut i = 0;
            while i < b.len() { assert!(sink.buf[i] == b[i]); i += 1; }
            // concrete near misses of this name (case changes, padding, truncation) are rejected
            $( assert!(<DecoderImplementation as core::str::FromStr>::from_str($near).is_err()); )*
            kani::cover!(sink.len > 5);
        }
    };
}

/// one concrete non-member string is rejected (kept minimal: one call, so that even a much heavier
/// from_str implementation is still decided within the cap)
#[macro_export]
macro_rules! c18_reject {
    ($name:ident, $s:expr, $unw:expr) => {
        #[kani::proof]
        #[kani::unwind($unw)]
        fn $name() {
            assert!(<DecoderImplementation as core::str::FromStr>::from_str($s).is_err());
            kani::cover!(true);
        }
    };
}

/// the command-line value list offers exactly the 36 names, verbatim
#[macro_export]
macro_rules! c18_valuelist {
    ($name:ident, $idx:expr, $unw:expr) => {
        #[kani::proof]
        #[kani::unwind($unw)]
        fn $name() {
            use clap::ValueEnum;
            let vs = DecoderImplementation::value_variants();
            assert!(vs.len() == 36);
            assert!(vs[$idx] == VARIANTS[$idx]);
            let pv = vs[$idx].to_possible_value().unwrap();
            let got = pv.get_name().as_bytes();
            let b = NAMES[$idx].as_bytes();
            assert!(got.len() == b.len());
            let mut i = 0;
            while i < b.len() { assert!(got[i] == b[i]); i += 1; }
            kani::cover!(true);
            core::mem::forget(pv);
        }
    };
}

/// factory row == generic decoder of the documented arithmetic and schedule, on the chain 2x3
/// matrix: (1) width witness -- with zero iterations a failing frame is answered with the hard
/// decisions of the *quantised* input, which exposes the working precision ($w: 64 | 32 | 8);
/// (2) one full decode compared with the generic decoder built directly.
#[macro_export]
macro_rules! c18_pair_body {
    ($impl:ident, $sched:ident, $arith:ty, $w:expr, $limit:expr, $hfn:ident, $n:expr, $xpos:expr, $wl:tt, $we:tt, $x:ident, $llrs:ident) => {{
        const N: usize = $n;
        let mut d1 = DecoderImplementation::$impl.build_decoder($hfn());
        // (1) the width-witness frame violates a check whatever x is
        let rest: [f64; N - 1] = $wl;
        let mut wl = [0.0f64; N];
        wl[0] = $x;
        let mut i = 1;
        while i < N { wl[i] = rest[i - 1]; i += 1; }
        let r0 = d1.decode(&wl, 0);
        let exp0: u8 = if $w == 64 { ($x <= 0.0) as u8 }
            else if $w == 32 { (($x as f32) <= 0.0) as u8 }
            else { ($crate::refmodels::quantize_spec($x) <= 0) as u8 };
        let we: [u8; N - 1] = $we;
        match &r0 {
            Ok(_) => { assert!(false); }
            Err(o) => {
                assert!(o.iterations == 0 && o.codeword.len() == N);
                assert!(o.codeword[0] == exp0);
                let mut i = 1;
                while i < N { assert!(o.codeword[i] == we[i - 1]); i += 1; }
            }
        }
        // (2) one full decode vs the generic decoder of the documented arithmetic and schedule
        let mut d2 = ldpc_toolbox::decoder::$sched::Decoder::new($hfn(), <$arith>::new());
        let r1 = d1.decode(&$llrs, $limit);
        let r2 = d2.decode(&$llrs, $limit);
        assert!($crate::macros::same_output(&r1, &r2, N));
        kani::cover!(r2.is_err());
        kani::cover!(r2.is_ok());
        kani::cover!(exp0 == 0);
        core::mem::forget(d1); core::mem::forget(d2); core::mem::forget(r0); core::mem::forget(r1); core::mem::forget(r2);
    }};
}

/// One harness for up to three factory rows (they share the 130 s tool overhead of the goto
/// binary that `build_decoder` drags in).  Rows are separated by `;`.
#[macro_export]
macro_rules! c18_pairs {
    ($name:ident, $stubs:ident, $limit:expr, $hfn:ident, $n:expr, $xpos:expr, $wl:tt, $we:tt, $unw:expr;
     $($impl:ident, $sched:ident, $arith:ty, $w:expr);+) => {
        $crate::$stubs! { $unw,
        fn $name() {
            const NN: usize = $n;
            let x = $crate::macros::any_f64_1e30();
            if $xpos { kani::assume(x > 0.0); }
            let mut llrs = [0.0f64; NN];
            let mut i = 0;
            while i < NN { llrs[i] = $crate::macros::any_llr_dom(); i += 1; }
            $( $crate::c18_pair_body!($impl, $sched, $arith, $w, $limit, $hfn, $n, $xpos, $wl, $we, x, llrs); )+
        }}
    };
}

// =====================================================================================
// C02 encode(): both encoder kinds, built through the verif-hooks constructors from a
// generator part (dense: every entry symbolic; staircase: concrete sparse H0), all messages
// =====================================================================================
#[macro_export]
macro_rules! c02_encode_dense {
    ($name:ident, $r:expr, $k:expr, $unw:expr) => {
        #[kani::proof]
        #[kani::unwind($unw)]
        fn $name() {
            const R: usize = $r;
            const K: usize = $k;
            let mut g = Array2::<GF2>::zeros((R, K));
            let mut gb = [[false; K]; R];
            let mut mb = [false; K];
            let mut m2 = [false; K];
            let mut i = 0;
            while i < R {
                let mut j = 0;
                while j < K { let x: bool = kani::any(); gb[i][j] = x; g[[i, j]] = if x { GF2::one() } else { GF2::zero() }; j += 1; }
                i += 1;
            }
            let mut j = 0;
            while j < K { mb[j] = kani::any(); m2[j] = kani::any(); j += 1; }
            let enc = Encoder::verif_from_dense_generator(g);
            let gf = |b: bool| if b { GF2::one() } else { GF2::zero() };
            let mut mv = ndarray::Array1::<GF2>::zeros(K);
            let mut mv2 = ndarray::Array1::<GF2>::zeros(K);
            let mut ms = ndarray::Array1::<GF2>::zeros(K);
            let mut j = 0;
            while j < K { mv[j] = gf(mb[j]); mv2[j] = gf(m2[j]); ms[j] = gf(mb[j] ^ m2[j]); j += 1; }
            let cw = enc.encode(&mv);
            let cw2 = enc.encode(&mv2);
            let cws = enc.encode(&ms);
            assert!(cw.len() == K + R && cw2.len() == K + R && cws.len() == K + R);
            let mut j = 0;
            while j < K { assert!(cw[j] == mv[j]); j += 1; }
            let mut i = 0;
            while i < R {
                // parity bit i = row i of the generator part times the message
                let mut s = false;
                let mut j = 0;
                while j < K { s ^= gb[i][j] && mb[j]; j += 1; }
                assert!(cw[K + i] == gf(s));
                i += 1;
            }
            // linear over GF(2)
            let mut t = 0;
            while t < K + R { assert!(cws[t] == cw[t] + cw2[t]); t += 1; }
            kani::cover!(cw[K].is_one());
            core::mem::forget(enc); core::mem::forget(cw); core::mem::forget(cw2); core::mem::forget(cws);
        }
    };
}

#[macro_export]
macro_rules! c02_encode_staircase {
    ($name:ident, $h0fn:ident, $h0b:ident, $r:expr, $k:expr, $unw:expr) => {
        #[kani::proof]
        #[kani::unwind($unw)]
        fn $name() {
            const R: usize = $r;
            const K: usize = $k;
            let mut mb = [false; K];
            let mut j = 0;
            while j < K { mb[j] = kani::any(); j += 1; }
            let gf = |b: bool| if b { GF2::one() } else { GF2::zero() };
            let mut mv = ndarray::Array1::<GF2>::zeros(K);
            let mut j = 0;
            while j < K { mv[j] = gf(mb[j]); j += 1; }
            let enc = Encoder::verif_from_staircase_generator($h0fn());
            let cw = enc.encode(&mv);
            assert!(cw.len() == K + R);
            let mut j = 0;
            while j < K { assert!(cw[j] == mv[j]); j += 1; }
            // every check of H = [H0 | staircase]: row i has ones of H0 row i, parity i and (i >= 1) parity i-1
            let mut i = 0;
            while i < R {
                let mut s = false;
                let mut j = 0;
                while j < K { s ^= $h0b[i][j] && mb[j]; j += 1; }
                s ^= cw[K + i].is_one();
                if i >= 1 { s ^= cw[K + i - 1].is_one(); }
                assert!(!s);
                i += 1;
            }
            kani::cover!(cw[K].is_one());
            core::mem::forget(enc); core::mem::forget(cw);
        }
    };
}

// =====================================================================================
// C19 (wrapper logic only): the C API decoder/encoder objects behind the extern "C"
// functions, driven through the verif-hooks wrappers with a checker-supplied scripted
// decoder (any verdict, word, iteration count) -- the wrapper must be faithful for ANY decoder.
// =====================================================================================
pub const C19_MAXN: usize = 12;
pub static mut C19_SEEN: [u64; C19_MAXN] = [0; C19_MAXN];
pub static mut C19_SEEN_LEN: usize = 0;
pub static mut C19_SEEN_ITER: usize = 0;
pub static mut C19_CALLS: usize = 0;

#[derive(Debug)]
pub struct ScriptedDecoder {
    pub ok: bool,
    pub word: [u8; C19_MAXN],
    pub n: usize,
    pub iters: usize,
}

impl ldpc_toolbox::decoder::LdpcDecoder for ScriptedDecoder {
    fn decode(&mut self, llrs: &[f64], max_iterations: usize)
        -> Result<ldpc_toolbox::decoder::DecoderOutput, ldpc_toolbox::decoder::DecoderOutput> {
        unsafe {
            C19_CALLS += 1;
            C19_SEEN_LEN = llrs.len();
            C19_SEEN_ITER = max_iterations;
            let mut i = 0;
            while i < llrs.len() && i < C19_MAXN { C19_SEEN[i] = llrs[i].to_bits(); i += 1; }
        }
        let mut cw = Vec::with_capacity(self.n);
        let mut i = 0;
        while i < self.n { cw.push(self.word[i]); i += 1; }
        let out = ldpc_toolbox::decoder::DecoderOutput { codeword: cw, iterations: self.iters };
        if self.ok { Ok(out) } else { Err(out) }
    }
}

#[macro_export]
macro_rules! c19_decode {
    ($name:ident, $fty:ty, $method:ident, $haspat:expr, $pat:expr, $p:expr, $bs:expr, $outlen:expr, $unw:expr) => {
        #[kani::proof]
        #[kani::unwind($unw)]
        fn $name() {
            const P: usize = $p;
            const BS: usize = $bs;
            const N: usize = P * BS;          // codeword length seen by the decoder
            const OUT: usize = $outlen;       // output_len given by the C caller (<= N)
            let pat: [bool; P] = $pat;
            let mut trues = 0usize;
            let mut k = 0;
            while k < P { if pat[k] { trues += 1; } k += 1; }
            let inlen = if $haspat { trues * BS } else { N };
            // all inputs first
            let ok: bool = kani::any();
            let word: [u8; $crate::macros::C19_MAXN] = kani::any();
            let max_it: u32 = kani::any();
            let iters: usize = kani::any();
            kani::assume(iters <= max_it as usize && iters <= i32::MAX as usize);
            let llrs: [$fty; N] = kani::any();
            let mut output = [0xAAu8; OUT];
            let scripted = $crate::macros::ScriptedDecoder { ok, word, n: N, iters };
            let punct = if $haspat { Some(Puncturer::new(&pat)) } else { None };
            let mut d = VerifCDecoder::new(Box::new(scripted), punct);
            let r = d.$method(&mut output, &llrs[..inlen], max_it);
            // verdict mapping
            if ok { assert!(r >= 0 && r as usize == iters); } else { assert!(r == -1); }
            // leading bits of exactly the word the decoder returned
            let mut i = 0;
            while i < OUT { assert!(output[i] == word[i]); i += 1; }
            // the decoder was called once, with the iteration limit and the depunctured LLRs
            unsafe {
                assert!($crate::macros::C19_CALLS == 1);
                assert!($crate::macros::C19_SEEN_ITER == max_it as usize);
                assert!($crate::macros::C19_SEEN_LEN == N);
                let mut j = 0usize;
                let mut k = 0;
                while k < P {
                    let mut t = 0;
                    while t < BS {
                        let seen = $crate::macros::C19_SEEN[k * BS + t];
                        if !$haspat || pat[k] {
                            // f32 input behaves as its f64 widening
                            let e = (llrs[if $haspat { j * BS + t } else { k * BS + t }] as f64).to_bits();
                            assert!(seen == e);
                        } else {
                            assert!(seen == 0);   // exact +0.0 at punctured positions
                        }
                        t += 1;
                    }
                    if pat[k] { j += 1; }
                    k += 1;
                }
            }
            kani::cover!(ok && r == 3);
            kani::cover!(!ok);
            core::mem::forget(d);
        }
    };
}

#[macro_export]
macro_rules! c19_encode {
    ($name:ident, $haspat:expr, $pat:expr, $p:expr, $r:expr, $k:expr, $unw:expr) => {
        #[kani::proof]
        #[kani::unwind($unw)]
        fn $name() {
            const P: usize = $p;
            const R: usize = $r;
            const K: usize = $k;
            const N: usize = R + K;
            let pat: [bool; P] = $pat;
            let mut trues = 0usize;
            let mut q = 0;
            while q < P { if pat[q] { trues += 1; } q += 1; }
            let bs = N / P;
            let outlen = if $haspat { trues * bs } else { N };
            let mut g = Array2::<GF2>::zeros((R, K));
            let mut gb = [[false; K]; R];
            let mut i = 0;
            while i < R {
                let mut j = 0;
                while j < K { let x: bool = kani::any(); gb[i][j] = x; g[[i, j]] = if x { GF2::one() } else { GF2::zero() }; j += 1; }
                i += 1;
            }
            let input: [u8; K] = kani::any();
            let enc = VerifCEncoder::new(Encoder::verif_from_dense_generator(g), if $haspat { Some(Puncturer::new(&pat)) } else { None });
            let mut output = [0xAAu8; N];
            enc.encode(&mut output[..outlen], &input);
            // expected systematic word: a byte equal to 1 is the bit 1, anything else the bit 0
            let mut word = [0u8; N];
            let mut j = 0;
            while j < K { word[j] = if input[j] == 1 { 1 } else { 0 }; j += 1; }
            let mut i = 0;
            while i < R {
                let mut s = 0u8;
                let mut j = 0;
                while j < K { if gb[i][j] { s ^= word[j]; } j += 1; }
                word[K + i] = s;
                i += 1;
            }
            // punctured: kept blocks in order
            let mut o = 0usize;
            let mut b = 0;
            while b < P {
                if !$haspat || pat[b] {
                    let mut t = 0;
                    while t < bs { assert!(output[o] == word[b * bs + t]); o += 1; t += 1; }
                }
                b += 1;
            }
            assert!(o == outlen);
            kani::cover!(output[outlen - 1] == 1);
            core::mem::forget(enc);
        }
    };
}

// =====================================================================================
// C18 factory rows by *type identity*: the trait object built for a name has the same
// vtable as the generic decoder of the documented (schedule, arithmetic) boxed directly, and a
// different vtable from the other schedule / the sibling precision.  All concrete: one harness
// covers several rows for the price of one build_decoder binary.
// =====================================================================================
#[inline]
pub fn vtable_of(b: &Box<dyn ldpc_toolbox::decoder::LdpcDecoder>) -> usize {
    let raw: *const dyn ldpc_toolbox::decoder::LdpcDecoder = &**b;
    let parts: (usize, usize) = unsafe { core::mem::transmute(raw) };
    parts.1
}

#[inline]
pub fn vtable_of_raw(raw: *const dyn ldpc_toolbox::decoder::LdpcDecoder) -> usize {
    let parts: (usize, usize) = unsafe { core::mem::transmute(raw) };
    parts.1
}

#[macro_export]
macro_rules! c18_types {
    ($name:ident, $stubs:ident, $unw:expr; $($impl:ident, $sched:ident, $arith:ty, $osched:ident, $w:expr);+) => {
        $crate::$stubs! { $unw,
        fn $name() {
            // inputs of the behavioural fallback (unused while every row has the documented type)
            let x = $crate::macros::any_f64_1e30();
            let mut llrs = [0.0f64; 3];
            let mut i = 0;
            while i < 3 { llrs[i] = $crate::macros::any_llr_dom(); i += 1; }
            $({
                let built = DecoderImplementation::$impl.build_decoder(h_pair1x2());
                // vtables of the expected and of the other-schedule decoder type, without building them:
                // a null thin pointer unsizes to a fat pointer carrying the type's vtable
                let expected: *const dyn LdpcDecoder = core::ptr::null::<ldpc_toolbox::decoder::$sched::Decoder<$arith>>();
                let other: *const dyn LdpcDecoder = core::ptr::null::<ldpc_toolbox::decoder::$osched::Decoder<$arith>>();
                let vb = $crate::macros::vtable_of(&built);
                let ve = $crate::macros::vtable_of_raw(expected);
                let vo = $crate::macros::vtable_of_raw(other);
                // sanity of the oracle: distinct types have distinct vtables
                assert!(ve != vo);
                core::mem::forget(built);
                if vb != ve {
                    // Not the documented type.  That alone is not a violation (the property is about behaviour):
                    // decide it behaviourally, exactly like the pairing harness does.
                    $crate::c18_pair_body!($impl, $sched, $arith, $w, 1, h_chain2x3, 3, false, [-1.0, 1.0], [1, 0], x, llrs);
                }
            })+
            kani::cover!(true);
        }}
    };
}

// =====================================================================================
// C04 float rules, formula level, under SURROGATE math on the exact small domain s/8:
// every operation is exact there (dyadic rationals with small denominators), so any
// algebraically equivalent implementation gives identical results, while a slip in the
// formula (wrong operand, missing term, wrong fold) shows.  $fam: 0 phi, 1 tanh,
// 2 min* approximation, 3 A-Min*.
// =====================================================================================
#[macro_export]
macro_rules! c04_formula_f {
    ($name:ident, $ty:ty, $f:ty, $anyf:path, $fam:expr, $clamp:expr, $d:expr, $unw:expr) => {
        $crate::with_surrogate_stubs! { $unw,
        fn $name() {
            const D: usize = $d;
            let mut vals = [0.0 as $f; D];
            let mut msgs = [Message { source: 0usize, value: 0.0 as $f }; D];
            let mut j = 0;
            while j < D {
                let v: $f = $anyf();
                vals[j] = v;
                msgs[j] = Message { source: $crate::macros::TAGS[j], value: v };
                j += 1;
            }
            let mut a = <$ty>::new();
            let mut out = [0.0 as $f; D];
            let mut cnt = [0u8; D];
            let mut bad = false;
            a.send_check_messages(&msgs, |m| {
                let j = $crate::macros::tag_index(m.dest, D);
                if j < D { out[j] = m.value; cnt[j] += 1; } else { bad = true; }
            });
            assert!(!bad);
            // the documented formulas, evaluated with the same (surrogate) elementary functions
            let phi = |x: $f| -> $f { let x = if x > 1e-30 { x } else { 1e-30 }; -((0.5 * x).tanh().ln()) };
            let ms = |x: $f, y: $f| -> $f { let r = (if x < y { x } else { y }) - (-(x - y).abs()).exp().ln_1p(); if r > 0.0 { r } else { 0.0 } };
            let me = |x: $f, y: $f| -> $f { (if x < y { x } else { y }) - (-(x - y).abs()).exp().ln_1p() + (-(x + y)).exp().ln_1p() };
            // least reliable input (first of minimal magnitude)
            let mut amin = 0usize;
            let mut k = 1;
            while k < D { if vals[k].abs() < vals[amin].abs() { amin = k; } k += 1; }
            let mut j = 0;
            while j < D {
                assert!(cnt[j] == 1);
                // sign of the product of the other inputs
                let mut neg = false;
                let mut k = 0;
                while k < D { if k != j && vals[k] < 0.0 { neg = !neg; } k += 1; }
                let expect: $f = if $fam == 0 {
                    let mut s: $f = 0.0;
                    let mut k = 0;
                    while k < D { if k != j { s += phi(vals[k].abs()); } k += 1; }
                    let m = phi(s);
                    if neg { -m } else { m }
                } else if $fam == 1 {
                    let mut p: $f = 1.0;
                    let mut k = 0;
                    while k < D {
                        if k != j {
                            let h = 0.5 * vals[k];
                            let h = if h > $clamp { $clamp } else if h < -$clamp { -$clamp } else { h };
                            p *= h.tanh();
                        }
                        k += 1;
                    }
                    2.0 * p.atanh()
                } else if $fam == 2 {
                    let mut acc: $f = -1.0;
                    let mut k = 0;
                    while k < D {
                        if k != j { let x = vals[k].abs(); acc = if acc < 0.0 { x } else { ms(x, acc) }; }
                        k += 1;
                    }
                    if neg { -acc } else { acc }
                } else {
                    let mut acc: $f = -1.0;
                    let mut k = 0;
                    while k < D {
                        if k != amin { let x = vals[k].abs(); acc = if acc < 0.0 { x } else { me(x, acc) }; }
                        k += 1;
                    }
                    let m = if j == amin { acc } else { me(acc, vals[amin].abs()) };
                    if neg { -m } else { m }
                };
                // (== on floats: +0.0 and -0.0 agree)
                assert!(out[j] == expect);
                j += 1;
            }
            kani::cover!(out[0] > 0.0);
            kani::cover!(out[0] < 0.0);
        }}
    };
}
