//! Reference models, written from the property statements (not from the macros in
//! arithmetic.rs).  Plain integer code over fixed arrays.

use crate::tables::TABLE_REF;

/// Configuration of an 8-bit arithmetic, read off its *name*.
#[derive(Clone, Copy)]
pub struct Cfg {
    /// A-Min* (true) or min* approximation (false)
    pub amin: bool,
    pub jones: bool,
    pub phl: bool,
    pub deg1: bool,
}

pub const fn cfg(amin: bool, jones: bool, phl: bool, deg1: bool) -> Cfg {
    Cfg { amin, jones, phl, deg1 }
}

/// round(8*ln(1+exp(-t/8))) for t >= 0 (computed independently by the driver), 0 beyond.
#[inline]
pub fn tab(t: i32) -> i32 {
    if t >= 0 && (t as usize) < TABLE_REF.len() {
        TABLE_REF[t as usize] as i32
    } else {
        0
    }
}

#[inline]
pub fn clip127(x: i32) -> i32 {
    if x > 127 { 127 } else if x < -127 { -127 } else { x }
}

#[inline]
fn iabs(x: i32) -> i32 { if x < 0 { -x } else { x } }
#[inline]
fn imin(x: i32, y: i32) -> i32 { if x < y { x } else { y } }
#[inline]
fn imax0(x: i32) -> i32 { if x < 0 { 0 } else { x } }

/// min* approximation of two magnitudes, positive correction dropped, floored at 0
#[inline]
pub fn minstar_approx(x: i32, y: i32) -> i32 {
    imax0(imin(x, y) - tab(iabs(x - y)))
}

/// exact (table) min* of two magnitudes, floored at 0; the sum saturates at 127
#[inline]
pub fn minstar_exact(x: i32, y: i32) -> i32 {
    imax0(imin(x, y) - tab(iabs(x - y)) + tab(imin(x + y, 127)))
}

#[inline]
pub fn phl(c: Cfg, x: i32) -> i32 {
    if c.phl {
        if x >= 100 { 127 } else if x <= -100 { -127 } else { x }
    } else {
        x
    }
}

/// Check-node rule of an 8-bit arithmetic: `out[j]` is the message to the neighbour that
/// sent `v[j]`.  D is the degree.
pub fn check_rule_i8<const D: usize>(c: Cfg, v: &[i32; D]) -> [i32; D] {
    let mut out = [0i32; D];
    if !c.amin {
        let mut j = 0;
        while j < D {
            let mut neg = false;
            let mut acc = -1i32;
            let mut k = 0;
            while k < D {
                if k != j {
                    if v[k] < 0 { neg = !neg; }
                    let x = iabs(v[k]);
                    acc = if acc < 0 { x } else { minstar_approx(x, acc) };
                }
                k += 1;
            }
            let m = if neg { -acc } else { acc };
            out[j] = phl(c, m);
            j += 1;
        }
    } else {
        // least reliable input: first one of minimal magnitude
        let mut amin = 0;
        let mut k = 1;
        while k < D {
            if iabs(v[k]) < iabs(v[amin]) { amin = k; }
            k += 1;
        }
        let mut neg_all = false;
        let mut acc = -1i32;
        k = 0;
        while k < D {
            if v[k] < 0 { neg_all = !neg_all; }
            if k != amin {
                let x = iabs(v[k]);
                acc = if acc < 0 { x } else { minstar_exact(x, acc) };
            }
            k += 1;
        }
        let vmin = iabs(v[amin]);
        let all = minstar_exact(acc, vmin);
        k = 0;
        while k < D {
            // sign of the product of the *other* inputs
            let neg = neg_all ^ (v[k] < 0);
            let mag = if k == amin { phl(c, acc) } else { phl(c, all) };
            out[k] = if neg { -mag } else { mag };
            k += 1;
        }
    }
    out
}

/// Variable-node rule of an 8-bit arithmetic.  Returns (new llr, messages).
pub fn var_rule_i8<const D: usize>(c: Cfg, input: i32, v: &[i32; D]) -> (i32, [i32; D]) {
    let ch = if c.deg1 && D == 1 {
        if input > 116 { 116 } else if input < -116 { -116 } else { input }
    } else {
        input
    };
    let mut total = ch;
    let mut k = 0;
    while k < D {
        total += v[k];
        k += 1;
    }
    if c.jones {
        total = clip127(total);
    }
    let mut out = [0i32; D];
    k = 0;
    while k < D {
        out[k] = clip127(total - v[k]);
        k += 1;
    }
    (clip127(total), out)
}

/// Quantiser spec: NaN -> 0, round-half-away(8x) saturated to +-127.
pub fn quantize_spec(x: f64) -> i32 {
    if x.is_nan() {
        return 0;
    }
    let y = 8.0 * x;
    if y >= 127.0 {
        127
    } else if y <= -127.0 {
        -127
    } else {
        // |y| < 127: truncation and fraction are exact
        let i = y as i32;
        let frac = y - (i as f64);
        if frac >= 0.5 { i + 1 } else if frac <= -0.5 { i - 1 } else { i }
    }
}
