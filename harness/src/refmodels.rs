//! Reference models, written from the property statements (not from the macros in
//! arithmetic.rs).  Plain integer code over fixed arrays.

use crate::tables::TABLE_REF;

/// Configuration of an 8-bit arithmetic, read off its *name*.
#[derive(Clone, Copy)]
pub struct Cfg {
    /// A-Min* (true) or min* approximation (false)
    pub amin: bool,
    pub jones: bool,
    pub phl: bool,
    pub deg1: bool,
}

pub const fn cfg(amin: bool, jones: bool, phl: bool, deg1: bool) -> Cfg {
    Cfg { amin, jones, phl, deg1 }
}

/// round(8*ln(1+exp(-t/8))) for t >= 0 (computed independently by the driver), 0 beyond.
#[inline]
pub fn tab(t: i32) -> i32 {
    if t >= 0 && (t as usize) < TABLE_REF.len() {
        TABLE_REF[t as usize] as i32
    } else {
        0
    }
}

#[inline]
pub fn clip127(x: i32) -> i32 {
    if x > 127 { 127 } else if x < -127 { -127 } else { x }
}

#[inline]
fn iabs(x: i32) -> i32 { if x < 0 { -x } else { x } }
#[inline]
fn imin(x: i32, y: i32) -> i32 { if x < y { x } else { y } }
#[inline]
fn imax0(x: i32) -> i32 { if x < 0 { 0 } else { x } }

/// min* approximation of two magnitudes, positive correction dropped, floored at 0
#[inline]
pub fn minstar_approx(x: i32, y: i32) -> i32 {
    imax0(imin(x, y) - tab(iabs(x - y)))
}

/// exact (table) min* of two magnitudes, floored at 0; the sum saturates at 127
#[inline]
pub fn minstar_exact(x: i32, y: i32) -> i32 {
    imax0(imin(x, y) - tab(iabs(x - y)) + tab(imin(x + y, 127)))
}

#[inline]
pub fn phl(c: Cfg, x: i32) -> i32 {
    if c.phl {
        if x >= 100 { 127 } else if x <= -100 { -127 } else { x }
    } else {
        x
    }
}

/// Check-node rule of an 8-bit arithmetic: `out[j]` is the message to the neighbour that
/// sent `v[j]`.  D is the degree.
pub fn check_rule_i8<const D: usize>(c: Cfg, v: &[i32; D]) -> [i32; D] {
    let mut out = [0i32; D];
    if !c.amin {
        let mut j = 0;
        while j < D {
            let mut neg = false;
            let mut acc = -1i32;
            let mut k = 0;
            while k < D {
                if k != j {
                    if v[k] < 0 { neg = !neg; }
                    let x = iabs(v[k]);
                    acc = if acc < 0 { x } else { minstar_approx(x, acc) };
                }
                k += 1;
            }
            let m = if neg { -acc } else { acc };
            out[j] = phl(c, m);
            j += 1;
        }
    } else {
        // least reliable input: first one of minimal magnitude
        let mut amin = 0;
        let mut k = 1;
        while k < D {
            if iabs(v[k]) < iabs(v[amin]) { amin = k; }
            k += 1;
        }
        let mut neg_all = false;
        let mut acc = -1i32;
        k = 0;
        while k < D {
            if v[k] < 0 { neg_all = !neg_all; }
            if k != amin {
                let x = iabs(v[k]);
                acc = if acc < 0 { x } else { minstar_exact(x, acc) };
            }
            k += 1;
        }
        let vmin = iabs(v[amin]);
        let all = minstar_exact(acc, vmin);
        k = 0;
        while k < D {
            // sign of the product of the *other* inputs
            let neg = neg_all ^ (v[k] < 0);
            let mag = if k == amin { phl(c, acc) } else { phl(c, all) };
            out[k] = if neg { -mag } else { mag };
            k += 1;
        }
    }
    out
}

/// Variable-node rule of an 8-bit arithmetic.  Returns (new llr, messages).
pub fn var_rule_i8<const D: usize>(c: Cfg, input: i32, v: &[i32; D]) -> (i32, [i32; D]) {
    let ch = if c.deg1 && D == 1 {
        if input > 116 { 116 } else if input < -116 { -116 } else { input }
    } else {
        input
    };
    let mut total = ch;
    let mut k = 0;
    while k < D {
        total += v[k];
        k += 1;
    }
    if c.jones {
        total = clip127(total);
    }
    let mut out = [0i32; D];
    k = 0;
    while k < D {
        out[k] = clip127(total - v[k]);
        k += 1;
    }
    (clip127(total), out)
}

/// Quantiser spec: NaN -> 0, round-half-away(8x) saturated to +-127.
pub fn quantize_spec(x: f64) -> i32 {
    if x.is_nan() {
        return 0;
    }
    let y = 8.0 * x;
    if y >= 127.0 {
        127
    } else if y <= -127.0 {
        -127
    } else {
        // |y| < 127: truncation and fraction are exact
        let i = y as i32;
        let frac = y - (i as f64);
        if frac >= 0.5 { i + 1 } else if frac <= -0.5 { i - 1 } else { i }
    }
}

// ------------------------------------------------------------------------------------
// C03: textbook schedules, dense and index-based, for exact integer min-sum.
// Result: (success, word, iterations).
// ------------------------------------------------------------------------------------

fn syndrome_ok<const R: usize, const N: usize>(h: &[[bool; N]; R], w: &[u8; N]) -> bool {
    let mut r = 0;
    while r < R {
        let mut p = 0u8;
        let mut c = 0;
        while c < N {
            if h[r][c] { p ^= w[c]; }
            c += 1;
        }
        if p != 0 { return false; }
        r += 1;
    }
    true
}

fn hard<const N: usize>(l: &[i32; N]) -> [u8; N] {
    let mut w = [0u8; N];
    let mut c = 0;
    while c < N { w[c] = if l[c] <= 0 { 1 } else { 0 }; c += 1; }
    w
}

/// min-sum of the entries of row r other than column c
fn minsum_others<const R: usize, const N: usize>(h: &[[bool; N]; R], m: &[[i32; N]; R], r: usize, c: usize) -> i32 {
    let mut neg = false;
    let mut mn = i32::MAX;
    let mut k = 0;
    while k < N {
        if h[r][k] && k != c {
            let v = m[r][k];
            if v < 0 { neg = !neg; }
            let a = iabs(v);
            if a < mn { mn = a; }
        }
        k += 1;
    }
    if neg { -mn } else { mn }
}

/// Flooding: all check-to-variable messages from the previous variable-to-check messages,
/// then all variable updates; syndrome test after every full iteration.
pub fn ref_flooding<const R: usize, const N: usize>(h: &[[bool; N]; R], llr: &[i32; N], limit: usize) -> (bool, [u8; N], usize) {
    let w0 = hard(llr);
    if syndrome_ok(h, &w0) { return (true, w0, 0); }
    let mut v2c = [[0i32; N]; R];
    let mut r = 0;
    while r < R { let mut c = 0; while c < N { if h[r][c] { v2c[r][c] = llr[c]; } c += 1; } r += 1; }
    let mut out = *llr;
    let mut it = 1;
    while it <= limit {
        let mut c2v = [[0i32; N]; R];
        let mut r = 0;
        while r < R { let mut c = 0; while c < N { if h[r][c] { c2v[r][c] = minsum_others(h, &v2c, r, c); } c += 1; } r += 1; }
        let mut c = 0;
        while c < N {
            let mut total = llr[c];
            let mut r = 0;
            while r < R { if h[r][c] { total += c2v[r][c]; } r += 1; }
            out[c] = total;
            let mut r = 0;
            while r < R { if h[r][c] { v2c[r][c] = total - c2v[r][c]; } r += 1; }
            c += 1;
        }
        let w = hard(&out);
        if syndrome_ok(h, &w) { return (true, w, it); }
        it += 1;
    }
    (false, hard(&out), limit)
}

/// Horizontal layered: checks one by one in row order with immediate variable updates;
/// check messages start at zero each frame; syndrome test after every full iteration.
pub fn ref_layered<const R: usize, const N: usize>(h: &[[bool; N]; R], llr: &[i32; N], limit: usize) -> (bool, [u8; N], usize) {
    let w0 = hard(llr);
    if syndrome_ok(h, &w0) { return (true, w0, 0); }
    let mut q = *llr;
    let mut rcv = [[0i32; N]; R];
    let mut it = 1;
    while it <= limit {
        let mut r = 0;
        while r < R {
            let mut x = [[0i32; N]; R];
            let mut c = 0;
            while c < N { if h[r][c] { x[r][c] = q[c] - rcv[r][c]; } c += 1; }
            let mut c = 0;
            while c < N {
                if h[r][c] {
                    let new = minsum_others(h, &x, r, c);
                    rcv[r][c] = new;
                    q[c] = x[r][c] + new;
                }
                c += 1;
            }
            r += 1;
        }
        let w = hard(&q);
        if syndrome_ok(h, &w) { return (true, w, it); }
        it += 1;
    }
    (false, hard(&q), limit)
}
