//! Stub catalogue (DESIGN.md §3.3).  Only inherent math methods of f64/f32 are ever
//! replaced; no function of ldpc_toolbox is.
//!
//! * TABLE     – exact libm values on the 128 arguments `impl_8bitquant!::new()` evaluates,
//!               nondeterministic elsewhere.
//! * CONTRACT  – nondeterministic results constrained by true quantitative interval facts.
//! * SURROGATE – fixed deterministic division-free stand-ins (two-run harnesses).
//!
//! Under `cargo kani playback` (native) the `#[kani::stub]` attributes are ignored, so a
//! replay runs the real libm.

use crate::tables::{EXP_TAB, LN1P_TAB};

// ---------------------------------------------------------------- TABLE

/// Index of the last table argument seen by `t_exp` (new() calls exp then ln_1p).
#[cfg(kani)]
static mut LAST_T: usize = 128;

#[cfg(kani)]
pub fn t_exp(x: f64) -> f64 {
    // new() evaluates exp(-(t/8)) for t = 0, 1, 2, ...
    let t = -x * 8.0; // exact
    let ti = t as usize; // saturating
    if t >= 0.0 && ti < 128 && (ti as f64) == t {
        unsafe { LAST_T = ti; }
        return f64::from_bits(EXP_TAB[ti]);
    }
    unsafe { LAST_T = 128; }
    kani::any()
}

#[cfg(kani)]
pub fn t_ln_1p(y: f64) -> f64 {
    let t = unsafe { LAST_T };
    if t < 128 && y.to_bits() == EXP_TAB[t] {
        return f64::from_bits(LN1P_TAB[t]);
    }
    kani::any()
}

// ---------------------------------------------------------------- CONTRACT
// Constants validated natively against the real libm by `tests::contract_grid`.

/// Upper bound of |tanh(z)| for |z| <= 18 (f64): tanh(18.0) itself.
pub const TANH18_BITS: u64 = crate::tables::TANH18_BITS;
/// Upper bound of |tanhf(z)| for |z| <= 9 (f32).
pub const TANH9F_BITS: u32 = crate::tables::TANH9F_BITS;

macro_rules! contract_stubs {
    ($f:ty, $tanh:ident, $atanh:ident, $ln:ident, $exp:ident, $ln1p:ident, $clampz:expr, $tmax:expr, $amax:expr, $up:expr, $dn:expr) => {
        #[cfg(kani)]
        pub fn $tanh(z: $f) -> $f {
            if z.is_nan() {
                return z;
            }
            let r: $f = kani::any();
            let a = z.abs();
            // sign and zero
            kani::assume(if z > 0.0 { r >= 0.0 } else if z < 0.0 { r <= 0.0 } else { r == z });
            kani::assume(!r.is_nan());
            let ra = r.abs();
            // |tanh z| <= min(|z|, 1); for |z| <= clamp also <= tanh(clamp)
            // (libm may be one ulp above |z| for small z: slack factor)
            kani::assume(ra <= 1.0 && ra <= a * $up);
            if a <= $clampz {
                kani::assume(ra <= $tmax);
            }
            // |tanh z| >= min(|z|/2, 0.46), and a non-zero argument never gives zero (tanh z = z for tiny z)
            let lo = if 0.5 * a < 0.46 { 0.5 * a } else { 0.46 };
            kani::assume(ra >= lo);
            kani::assume(a == 0.0 || ra > 0.0);
            r
        }

        #[cfg(kani)]
        pub fn $atanh(p: $f) -> $f {
            if p.is_nan() {
                return p;
            }
            let r: $f = kani::any();
            kani::assume(if p > 0.0 { r >= 0.0 } else if p < 0.0 { r <= 0.0 } else { r == p });
            if p.abs() <= $tmax {
                kani::assume(r.abs() <= $amax);
                // |atanh p| >= |p|
                kani::assume(r.abs() >= p.abs() * $dn);
            }
            r
        }

        #[cfg(kani)]
        pub fn $ln(y: $f) -> $f {
            let r: $f = kani::any();
            if y >= 2.5e-31 && y <= 1.0 {
                kani::assume(r >= -71.0 && r <= 0.0);
                if y == 1.0 {
                    kani::assume(r == 0.0);
                }
            } else if y > 1.0 {
                kani::assume(r >= 0.0 && r <= y);
            }
            r
        }

        #[cfg(kani)]
        pub fn $exp(x: $f) -> $f {
            let r: $f = kani::any();
            if x <= 0.0 {
                kani::assume(r >= 0.0 && r <= 1.0);
                // decay: e^x <= e^-1, e^-2, e^-4, e^-8 (rounded up)
                if x <= -1.0 { kani::assume(r <= 0.3679); }
                if x <= -2.0 { kani::assume(r <= 0.1354); }
                if x <= -4.0 { kani::assume(r <= 0.01832); }
                if x <= -8.0 { kani::assume(r <= 0.0003355); }
            } else if x <= 8.0 {
                kani::assume(r >= 1.0 && r <= 2981.0);
            } else if x.is_finite() {
                kani::assume(r >= 1.0);
            }
            r
        }

        #[cfg(kani)]
        pub fn $ln1p(z: $f) -> $f {
            let r: $f = kani::any();
            if z >= 0.0 && z <= 1.0 {
                kani::assume(r >= 0.0 && r <= z * $up && r <= 0.6932);
            } else if z > 1.0 && z <= 1.0e6 {
                kani::assume(r >= 0.6931 && r <= z * $up);
            }
            r
        }
    };
}

contract_stubs!(f64, c_tanh64, c_atanh64, c_ln64, c_exp64, c_ln1p64, 18.0, f64::from_bits(TANH18_BITS), 18.1, 1.00000000000001, 0.99999999999999);
contract_stubs!(f32, c_tanh32, c_atanh32, c_ln32, c_exp32, c_ln1p32, 9.0, f32::from_bits(TANH9F_BITS), 9.1, 1.00001, 0.99999);

// ---------------------------------------------------------------- SURROGATE

macro_rules! surrogate_stubs {
    ($f:ty, $tanh:ident, $atanh:ident, $ln:ident, $exp:ident, $ln1p:ident) => {
        pub fn $tanh(x: $f) -> $f {
            if x > 1.0 { 1.0 } else if x < -1.0 { -1.0 } else { x }
        }
        pub fn $atanh(p: $f) -> $f { 2.0 * p }
        pub fn $ln(y: $f) -> $f { y - 1.0 }
        pub fn $exp(x: $f) -> $f { if 1.0 + x > 0.0 { 1.0 + x } else { 0.0 } }
        pub fn $ln1p(z: $f) -> $f { 0.5 * z }
    };
}

surrogate_stubs!(f64, s_tanh64, s_atanh64, s_ln64, s_exp64, s_ln1p64);
surrogate_stubs!(f32, s_tanh32, s_atanh32, s_ln32, s_exp32, s_ln1p32);

#[cfg(test)]
mod tests {
    use super::*;

    /// The TABLE constants generated by the driver (Python, libm through CPython) equal what
    /// Rust's std computes natively.
    #[test]
    fn table_matches_native_libm() {
        for t in 0..128usize {
            let e = (-(t as f64 / 8.0)).exp();
            assert_eq!(e.to_bits(), EXP_TAB[t], "exp t={}", t);
            assert_eq!(e.ln_1p().to_bits(), LN1P_TAB[t], "ln_1p t={}", t);
        }
        assert_eq!(18.0f64.tanh().to_bits(), TANH18_BITS);
        assert_eq!(9.0f32.tanh().to_bits(), TANH9F_BITS);
    }

    /// Every CONTRACT fact holds for the real libm on a grid.
    #[test]
    fn contract_grid() {
        let t18 = f64::from_bits(TANH18_BITS);
        let t9 = f32::from_bits(TANH9F_BITS);
        let mut z = 5e-31f64;
        while z < 1e31 {
            for s in [1.0f64, 1.0000001, 1.003, 1.37, 1.61803, 1.9999] {
                let a = z * s;
                let r = a.tanh();
                assert!(r >= 0.0 && r <= 1.0 && r <= a * 1.00000000000001 && r >= (0.5 * a).min(0.46));
                assert!((-a).tanh() == -r);
                if a <= 18.0 { assert!(r <= t18); }
                let rf = (a as f32).tanh();
                let af = a as f32;
                if af.is_finite() && af >= 5e-31 {
                    assert!(rf >= 0.0 && rf <= 1.0 && rf <= af * 1.00001 && rf >= (0.5 * af).min(0.46));
                    if af <= 9.0 { assert!(rf <= t9); }
                }
                // ln on [2.5e-31, 1]
                if a >= 2.5e-31 && a <= 1.0 {
                    let l = a.ln();
                    assert!(l >= -71.0 && l <= 0.0);
                    let lf = (a as f32).ln();
                    if (a as f32) >= 2.5e-31 { assert!(lf >= -71.0 && lf <= 0.0); }
                    // ln_1p on [0,1]
                    let q = a.ln_1p();
                    assert!(q >= 0.0 && q <= a * 1.00000000000001 && q <= 0.6932);
                    let qf = (a as f32).ln_1p();
                    assert!(qf >= 0.0 && qf <= (a as f32) * 1.00001 && qf <= 0.6932);
                    // atanh
                    if a <= t18 {
                        let h = a.atanh();
                        assert!(h >= a * 0.99999999999999 && h <= 18.1);
                    }
                    if (a as f32) <= t9 {
                        let h = (a as f32).atanh();
                        assert!(h >= (a as f32) * 0.99999 && h <= 9.1);
                    }
                }
                if a > 1.0 && a < 1e300 { assert!(a.ln() >= 0.0 && a.ln() <= a); }
                // exp on (-inf, 0]
                let e = (-a).exp();
                assert!(e >= 0.0 && e <= 1.0);
                let ef = (-(a as f32)).exp();
                assert!(ef >= 0.0 && ef <= 1.0);
                if a < 700.0 { assert!(a.exp() >= 1.0); }
                if a <= 8.0 { assert!(a.exp() <= 2981.0 && (a as f32).exp() <= 2981.0); }
                if a >= 1.0 { assert!(e <= 0.3679 && ef <= 0.3679); }
                if a >= 2.0 { assert!(e <= 0.1354 && ef <= 0.1354); }
                if a >= 4.0 { assert!(e <= 0.01832 && ef <= 0.01832); }
                if a >= 8.0 { assert!(e <= 0.0003355 && ef <= 0.0003355); }
                if a > 1.0 && a <= 1.0e6 {
                    assert!(a.ln_1p() >= 0.6931 && a.ln_1p() <= a * 1.00000000000001);
                    assert!((a as f32).ln_1p() >= 0.6931 && (a as f32).ln_1p() <= (a as f32) * 1.00001);
                }
            }
            z *= 1.013;
        }
        // tiny and subnormal arguments: tanh never flushes a non-zero argument to zero
        let mut z = f64::from_bits(1);
        while z < 1e-30 {
            assert!(z.tanh() > 0.0 && (-z).tanh() < 0.0 && z.tanh() <= z * 1.00000000000001 && z.tanh() >= 0.5 * z);
            z *= 3.7;
        }
        let mut zf = f32::from_bits(1);
        while zf < 1e-30 {
            assert!(zf.tanh() > 0.0 && (-zf).tanh() < 0.0 && zf.tanh() <= zf * 1.00001 && zf.tanh() >= 0.5 * zf);
            zf *= 3.7;
        }
        assert!(t18.atanh() <= 18.1 && t9.atanh() <= 9.1);
        assert_eq!(1.0f64.ln(), 0.0);
        assert_eq!(1.0f32.ln(), 0.0);
        assert_eq!(0.0f64.tanh().to_bits(), 0.0f64.to_bits());
        assert_eq!((-0.0f64).tanh().to_bits(), (-0.0f64).to_bits());
        assert_eq!(0.0f64.atanh().to_bits(), 0.0f64.to_bits());
    }
}
