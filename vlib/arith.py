"""Arithmetic types and implementation names of ldpc-toolbox, as the documentation states them.

This list is the *pinned expectation* (from the docs / the property text), not read from the
source: a check fails to compile or fails its assertions if the source stops matching it.
"""

I8_VARIANTS = [
    # suffix, jones, phl, deg1
    ("", False, False, False),
    ("Jones", True, False, False),
    ("PartialHardLimit", False, True, False),
    ("JonesPartialHardLimit", True, True, False),
    ("Deg1Clip", False, False, True),
    ("JonesDeg1Clip", True, False, True),
    ("PartialHardLimitDeg1Clip", False, True, True),
    ("JonesPartialHardLimitDeg1Clip", True, True, True),
]

def i8_types():
    out = []
    for base, amin in (("Minstarapproxi8", False), ("Aminstari8", True)):
        for suf, jones, phl, deg1 in I8_VARIANTS:
            out.append(dict(name=base + suf, amin=amin, jones=jones, phl=phl, deg1=deg1, kind="i8"))
    return out

def float_types():
    out = []
    for base in ("Phi", "Tanh", "Minstarapprox", "Aminstar"):
        for f in ("f64", "f32"):
            out.append(dict(name=base + f, base=base, f=f, kind="float"))
    return out

def all_types():
    return float_types() + i8_types()

def cfg_expr(t):
    b = lambda x: "true" if x else "false"
    return "crate::refmodels::cfg(%s, %s, %s, %s)" % (b(t["amin"]), b(t["jones"]), b(t["phl"]), b(t["deg1"]))

# 36 implementation names: (name, arithmetic type, schedule)
def implementations():
    out = []
    fl = ["Phif64", "Phif32", "Tanhf64", "Tanhf32", "Minstarapproxf64", "Minstarapproxf32"]
    for n in fl:
        out.append((n, n, "flooding"))
    for suf, *_ in I8_VARIANTS:
        out.append(("Minstarapproxi8" + suf, "Minstarapproxi8" + suf, "flooding"))
    for n in ["Aminstarf64", "Aminstarf32"]:
        out.append((n, n, "flooding"))
    for suf, *_ in I8_VARIANTS:
        out.append(("Aminstari8" + suf, "Aminstari8" + suf, "flooding"))
    for n in ["Phif64", "Phif32", "Tanhf64", "Tanhf32", "Minstarapproxf64", "Minstarapproxf32",
              "Minstarapproxi8", "Minstarapproxi8PartialHardLimit",
              "Aminstarf64", "Aminstarf32", "Aminstari8", "Aminstari8PartialHardLimit"]:
        out.append(("HL" + n, n, "horizontal_layered"))
    assert len(out) == 36
    return out

def type_info(name):
    for t in all_types():
        if t["name"] == name:
            return t
    raise KeyError(name)
