"""C06 (parameters and tables only) -- DVB-S2 codes conform to ETSI EN 302 307-1."""
import json, os
from ..core import Harness, VERIF

PRELUDE = """use ldpc_toolbox::codes::dvbs2::Code;
"""

# ETSI EN 302 307-1: n, k_ldpc (Tables 5a/5b), q (Tables 7a/7b).  Transcribed here, NOT read
# from the tree.
STANDARD = {
    "R1_4": (64800, 16200, 135), "R1_3": (64800, 21600, 120), "R2_5": (64800, 25920, 108), "R1_2": (64800, 32400, 90),
    "R3_5": (64800, 38880, 72), "R2_3": (64800, 43200, 60), "R3_4": (64800, 48600, 45), "R4_5": (64800, 51840, 36),
    "R5_6": (64800, 54000, 30), "R8_9": (64800, 57600, 20), "R9_10": (64800, 58320, 18),
    "R1_4short": (16200, 3240, 36), "R1_3short": (16200, 5400, 30), "R2_5short": (16200, 6480, 27), "R1_2short": (16200, 7200, 25),
    "R3_5short": (16200, 9720, 18), "R2_3short": (16200, 10800, 15), "R3_4short": (16200, 11880, 12), "R4_5short": (16200, 12600, 10),
    "R5_6short": (16200, 13320, 8), "R8_9short": (16200, 14400, 5),
}
# Column-degree profile of the information part: (high degree, number of 360-column groups with it);
# all remaining groups have degree 3.  Normal frames from the standard's degree distribution; short frames
# pinned from the address tables of Annex C as snapshotted in pins/tree_snapshot.json.
PROFILE = {
    "R1_4": (12, 15), "R1_3": (12, 20), "R2_5": (12, 24), "R1_2": (8, 36), "R3_5": (12, 36), "R2_3": (13, 12), "R3_4": (12, 15),
    "R4_5": (11, 18), "R5_6": (13, 15), "R8_9": (4, 20), "R9_10": (4, 18),
}


def load_pins():
    return json.load(open(os.path.join(VERIF, "pins", "tree_snapshot.json")))


def build(tier, seed):
    pins = load_pins()["dvbs2"]
    items = []
    pre = PRELUDE
    codes = list(STANDARD.keys())
    for c in codes:
        n, k, q = STANDARD[c]
        addr = pins[c]["addresses"]
        lens = [len(r) for r in addr]
        if c in PROFILE:
            hi, nhi = PROFILE[c]
        else:
            hi = max(lens)
            nhi = sum(1 for l in lens if l == hi) if hi != 3 else 0
        if hi == 3:
            nhi = 0
        pre += "static PIN_%s: [&[usize]; %d] = [%s];\n" % (c, len(addr), ", ".join("&[" + ", ".join(map(str, r)) + "]" for r in addr))
        hn = "c06_%s" % c
        items.append((Harness(hn, {"code": c, "input": "symbolic (row t, positions i, i2) over the whole address table",
                                    "oracle": "n,k,q of EN 302 307-1; m = n-k = 360q; k/360 rows; degree profile (%d x deg %d, rest 3); address < m; distinct in a row; == pinned copy" % (nhi, hi)},
                              1.0 + len(addr) / 40.0),
                      "crate::c06_code!(%s, %s, %d, %d, %d, PIN_%s, %d, %d, %d);" % (hn, c, n, k, q, c, hi, nhi, len(addr) + 3)))
    meta = {
        "functions": ["codes::dvbs2::Code::{n, m, k, q, len, addresses} through the verif-hooks accessors verif_params / verif_addresses (21 identifiers, one harness each)"],
        "bounds": {"codes": codes, "unwind": "rows+3"},
        "outside": ["Code::h(): the expansion loop (x + (j mod 360)*q) mod m, insert_col, the staircase insertion -- >= 16200 data-dependent heap insertions, three orders of magnitude beyond what symbolic execution of SparseMatrix reaches (probes P2-P4); the loop body is not a separately callable unit",
                    "4-cycle freedom, girth, acceptance by the encoder, equality of the full matrix",
                    "the address pin is a snapshot of the tree (pins/tree_snapshot.json) validated by the structural checks, not an independent transcription of Annex B/C; n, k, q and the normal-frame degree profiles are transcribed from the standard"],
        "stubs": [],
        "assumptions": [],
    }
    return {"prelude": pre, "items": items, "meta": meta, "nshards": 11, "timeout": 600 if tier == "quick" else 1800}
