"""C01 -- a decoder never reports success on a word that is not a codeword."""
from ..core import Harness
from .. import arith, families

PRELUDE = """use ldpc_toolbox::decoder::arithmetic::*;
use ldpc_toolbox::decoder::{DecoderOutput, LdpcDecoder};
use ldpc_toolbox::sparse::SparseMatrix;
"""


def family(tier, seed):
    if tier == "quick":
        return families.HQ[:2]
    return families.HQ + [families.JOHNSON] + families.random_family(seed, 2)


# representative pairs (one per arithmetic family and schedule) for the extra quick-tier cases
REP = ("Phif64", "Tanhf32", "Minstarapproxf64", "Aminstarf32", "Minstarapproxi8JonesPartialHardLimitDeg1Clip", "Aminstari8",
       "HLPhif32", "HLTanhf64", "HLMinstarapproxf32", "HLAminstarf64", "HLMinstarapproxi8PartialHardLimit", "HLAminstari8")


def build(tier, seed):
    fam = family(tier, seed)
    limits = [0, 1] if tier == "quick" else [0, 1, 2, 3]
    items = []
    for impl, ty, sched in arith.implementations():
        kind = arith.type_info(ty)["kind"]
        mac = "c01_i8" if kind == "i8" else "c01_f"
        for fi, (name, n, rows) in enumerate(fam):
            r = len(rows)
            maxw = max(max(len(x) for x in rows), n, r)
            for lim in limits:
                if tier == "quick":
                    # measured (14 parallel): limit 0 ~ 40-90 s, limit 1 ~ 80-300 s per harness.  Quick: every pair with
                    # limit 1 on the chain matrix; limit 0 and the second matrix for the representative pairs only.
                    if (lim == 0 or fi > 0) and impl not in REP:
                        continue
                    if fi > 0 and lim == 0:
                        continue
                    if fi > 0 and "Aminstar" in ty and sched == "flooding":
                        continue  # > 400 s: thorough tier
                else:
                    # thorough (~1 h at 10 shards): every pair on the three smallest matrices (chain: limits 0..2, others
                    # limit 1); representative pairs on the whole family at limit 1, plus chain at limit 3 and the
                    # 6-cycle matrix at limit 2
                    if impl in REP:
                        ok = (lim == 1) or (name == "chain2x3") or (name == "cyc3x6" and lim == 2)
                    else:
                        ok = (name == "chain2x3" and lim <= 2) or (name in ("deg3_2x4", "star3x4") and lim == 1)
                    if not ok:
                        continue
                    if "Aminstar" in ty and sched == "flooding" and name not in ("chain2x3", "deg3_2x4", "star3x4"):
                        continue  # flooding A-Min* on 3x5 and larger: > 12 GB / 3600 s (symbolic argmin => symbolic destinations)
                hn = "c01_%s_%s_l%d" % (impl, name, lim)
                unw = max(maxw, lim) + 3
                w = 2.0 if lim == 0 else (4.0 + sum(len(x) for x in rows)) * lim * (2.0 if "Aminstar" in ty else 1.0)
                items.append((Harness(hn, {"implementation": impl, "decoder": "%s::Decoder<%s>" % (sched, ty), "matrix": name, "iteration_limit": lim,
                                            "input": "%d LLRs, every f64 with |x| <= 1e30 (incl. +-0, subnormals)" % n},
                                      w, stubs="TABLE" if kind == "i8" else "CONTRACT"),
                              "crate::%s!(%s, %s, %s, h_%s, syn_%s, %d, %d, %s, %d);" % (mac, hn, sched, ty, name, name, n, lim, "true" if lim >= 1 else "false", unw)))
    meta = {
        "functions": ["the 36 (schedule, arithmetic) pairs behind the 36 implementation names, built as the generic decoder directly (the name -> pair wiring of build_decoder is C18's subject; going through the factory makes every goto binary 20x larger)", "flooding::Decoder::{new, decode, initialize, process_check_nodes, process_variable_nodes}",
                      "horizontal_layered::Decoder::{new, decode, initialize, process_check_nodes}", "decoder::{check_llrs, hard_decisions, Messages::send, Messages::from_iter, SentMessages::from_iter}",
                      "the DecoderArithmetic impl of the named type", "SparseMatrix::{new, insert_row, iter_row, iter_col, num_rows, num_cols}"],
        "bounds": {"matrices": families.describe(fam), "iteration_limits": limits, "unwind": "max(n, rows, weights, limit)+3; table loop 26 via --unwindset",
                   "llr_range": "|x| <= 1e30, all bit patterns"},
        "outside": ["matrices outside the listed family", "iteration limits above the listed ones", "NaN/inf LLRs (excluded by the statement)",
                    "behaviour that depends on specific transcendental values (float types run under CONTRACT interval stubs: every real execution is included, some extra ones too)"],
        "stubs": ["TABLE (8-bit rows)", "CONTRACT (float rows)"],
        "assumptions": ["row weight >= 2 (statement)", "CONTRACT facts hold for libm (validated natively on a grid)"],
    }
    return {"prelude": PRELUDE + families.rust_defs(fam), "items": items, "meta": meta, "nshards": 14 if tier == "quick" else 10,
            "timeout": 600 if tier == "quick" else 3600, "rss_cap_gb": 8 if tier == "quick" else 12}
