"""C10 -- a decoder object carries no state from one frame to the next (decomposed)."""
from ..core import Harness
from .. import arith, families

PRELUDE = """use ldpc_toolbox::decoder::arithmetic::*;
use ldpc_toolbox::decoder::factory::{DecoderFactory, DecoderImplementation};
use ldpc_toolbox::decoder::{DecoderOutput, LdpcDecoder, Message, SentMessage};
use ldpc_toolbox::sparse::SparseMatrix;
"""


# quick tier: two-call histories for one pair per arithmetic family and schedule (flooding A-Min* costs 300 s each)
REPZ = ("Phif64", "Tanhf32", "Minstarapproxf64", "Minstarapproxi8JonesPartialHardLimitDeg1Clip", "Aminstari8",
        "HLPhif32", "HLTanhf64", "HLMinstarapproxf32", "HLAminstarf64", "HLMinstarapproxi8PartialHardLimit", "HLAminstari8")


def build(tier, seed):
    impls = arith.implementations()
    fam = [families.HQ[0]] if tier == "quick" else [families.HQ[0], families.HQ[1], families.HQ[2]]
    pre = PRELUDE + families.rust_defs(fam)
    items = []
    # --- item 3: havoc-inductive, generic decoders (all 36 arithmetic/schedule pairs)
    limits = [0, 1] if tier == "quick" else [0, 1, 2]
    for impl, ty, sched in impls:
        kind = arith.type_info(ty)["kind"]
        stubs = "with_table_stubs" if kind == "i8" else "with_surrogate_stubs"
        mac = "c10_havoc_flooding" if sched == "flooding" else "c10_havoc_layered"
        for name, n, rows in fam:
            for lim in limits:
                if lim >= 1 and "Aminstar" in ty and sched == "flooding":
                    continue  # symbolic argmin => symbolic message destinations: > 8 GB with two decodes (item 2 covers these pairs with one full decode)
                if tier == "thorough" and name != "chain2x3" and lim != 1:
                    continue  # the larger matrices at limit 1 only
                if lim >= 2 and kind != "i8":
                    continue  # float pairs at limit 2: up to > 3600 s (two-run float miter), and a failure is no longer reachable on the chain
                hn = "c10_havoc_%s_%s_l%d" % (impl, name, lim)
                w = 2.0 if lim == 0 else (12.0 if kind == "i8" else 25.0) * lim
                cov = 1 if lim >= 2 else None   # after two iterations on the chain a failure may be unreachable
                items.append((Harness(hn, {"pair": "%s::Decoder<%s>" % (sched, ty), "matrix": name, "iteration_limit": lim,
                                            "input": "arbitrary pre-state (every LLR/message value cell symbolic) + %d LLRs from s*2^-e" % n,
                                            "oracle": "same (verdict, word, iterations) as a fresh decoder"}, w,
                                      stubs="TABLE" if kind == "i8" else "SURROGATE", neighbourhood=True, covers=cov),
                              "crate::%s!(%s, %s, %s, h_%s, %d, %d, %d);" % (mac, hn, stubs, ty, name, n, lim, max(n, len(rows), lim) + 3)))
    # --- item 2: real two-call history, second call with zero iterations
    limas = [1] if tier == "quick" else [0, 1]
    for impl, ty, sched in impls:
        kind = arith.type_info(ty)["kind"]
        stubs = "with_table_stubs" if kind == "i8" else "with_surrogate_stubs"
        if tier == "quick" and (impl not in REPZ):
            continue
        for name, n, rows in fam[:1]:
            for la in limas:
                hn = "c10_zero_%s_%s_a%d" % (impl, name, la)
                items.append((Harness(hn, {"implementation": impl, "matrix": name, "history": "decode(A, %d); decode(B, 0)" % la,
                                            "input": "A and B: %d LLRs each from s*2^-e" % n, "oracle": "second call == fresh decoder's decode(B, 0)"},
                                      (8.0 if kind == "i8" else 15.0), stubs="TABLE" if kind == "i8" else "SURROGATE", neighbourhood=True),
                              "crate::c10_zero_iter!(%s, %s, %s, %s, h_%s, %d, %d, %d);" % (hn, stubs, sched, ty, name, n, la, max(n, len(rows), la) + 3)))
    # --- item 1: arithmetic scratch
    seqs_all = [(0, 0), (1, 1), (1, 0), (0, 1)]
    for t in arith.all_types():
        n = t["name"]
        kind = t["kind"]
        stubs = "with_table_stubs" if kind == "i8" else "with_surrogate_stubs"
        if tier == "quick":
            if kind == "float":
                if t["base"] == "Aminstar":
                    continue  # no scratch field at all
                # measured 100-390 s each: the four orders are split over the two widths
                seqs, degs = ([(0, 0), (1, 1)] if t["f"] == "f64" else [(1, 0), (0, 1)]), [(3, 2)]
            elif not t["amin"]:
                seqs, degs = [(1, 1), (1, 0)], [(3, 2)]
            else:
                seqs, degs = [(1, 1)], [(3, 2)]
            if kind == "i8" and (t["jones"] or t["deg1"]):
                continue
        else:
            seqs, degs = seqs_all, ([(3, 2), (2, 3)] if (kind == "float" and t["f"] == "f64") else [(3, 2)])
        for (oa, ob) in seqs:
            for (da, db) in degs:
                hn = "c10_scratch_%s_%d%d_%dto%d" % (n, oa, ob, da, db)
                opn = {0: "send_check_messages", 1: "update_check_messages_and_vars"}
                items.append((Harness(hn, {"type": n, "history": "%s(degree %d) then %s(degree %d)" % (opn[oa], da, opn[ob], db),
                                            "input": "all message/LLR values symbolic (8-bit: full range; float: s/8, |s|<=127)", "oracle": "second call emits what a fresh arithmetic object emits"},
                                      6.0 if kind == "i8" else 12.0, stubs="TABLE" if kind == "i8" else "SURROGATE", neighbourhood=True),
                              "crate::c10_scratch!(%s, %s, %s, %d, %d, %d, %d, %d);" % (hn, stubs, n, oa, ob, da, db, max(da, db) + 3)))
    meta = {
        "functions": ["flooding::Decoder::{new, decode, initialize, process_*}", "horizontal_layered::Decoder::{new, decode, initialize, process_check_nodes}", "verif_havoc hooks (state overwrite only)",
                      "DecoderImplementation::build_decoder", "DecoderArithmetic::{send_check_messages, update_check_messages_and_vars} of all 24 types (scratch vectors phis/tanhs/minstars/_minstars)"],
        "bounds": {"matrices": families.describe(fam), "iteration_limits": limits, "second_call_histories": limas, "scratch_degree_pairs": "see harness list",
                   "llr_domain": "s*2^-e, s in [-127,127], e in {0,3,30}; havoc values: 8-bit cells every value in [-127,127], i16 cells |v| <= 25527, float cells s/8"},
        "outside": ["histories in which the *allocation* state of a scratch vector differs in a way not covered by item 1 (it only grows)", "LLR vectors of the wrong length",
                    "float types: statelessness holds for the SURROGATE interpretation of the math functions on the small value domain (a data-flow claim: no stale cell is read)",
                    "call sites in simulation/ber.rs and c_api/decoder.rs (they only call decode)"],
        "stubs": ["TABLE (8-bit)", "SURROGATE (float)"],
        "assumptions": ["item 3 is inductive: an arbitrary pre-state covers call histories of any length; scratch vectors inside the arithmetic object are covered by item 1 instead (private fields)"],
    }
    return {"prelude": pre, "items": items, "meta": meta, "nshards": 14 if tier == "quick" else 10, "timeout": 600 if tier == "quick" else 3600, "rss_cap_gb": 8 if tier == "quick" else 14}
