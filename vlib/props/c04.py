"""C04 -- every arithmetic's check-node message is a faithful (approximate) box-plus."""
from ..core import Harness
from .. import arith

PRELUDE = """use ldpc_toolbox::decoder::arithmetic::*;
use ldpc_toolbox::decoder::{Message, SentMessage};
"""


def build(tier, seed):
    items = []
    degs_i8 = [2, 3, 4, 5] if tier == "quick" else [2, 3, 4, 5, 6, 7, 8]
    degs_f = [2, 3, 4] if tier == "quick" else [2, 3, 4, 5]
    rep = ("Minstarapproxi8", "Aminstari8", "Minstarapproxi8JonesPartialHardLimitDeg1Clip", "Aminstari8PartialHardLimit")
    for t in arith.i8_types():
        n = t["name"]
        for d in degs_i8:
            if tier == "quick" and d >= 5 and n not in rep:
                continue
            w = (2.0 + d * d * 0.6) * (2.0 if t["amin"] else 1.0)
            items.append((Harness("c04_check_%s_d%d" % (n, d),
                                  {"type": n, "degree": d, "input": "%d messages, each every value in [-127,127]" % d,
                                   "constructor": "default()" if d == 3 else "new()",
                                   "oracle": "reference integer rule + sign/magnitude/PHL facts of the statement"}, w, stubs="TABLE"),
                          "crate::c04_check_i8!(c04_check_%s_d%d, %s, %s, %d, %d, %s);" % (n, d, n, arith.cfg_expr(t), d, d + 3, "default" if d == 3 else "new")))
    for t in arith.float_types():
        n, f, base = t["name"], t["f"], t["base"]
        sign = "true" if base in ("Phi", "Tanh", "Minstarapprox") else "false"
        mag = "true" if base == "Minstarapprox" else "false"
        for d in degs_f:
            if tier == "quick" and d >= 4 and f == "f32":
                continue
            items.append((Harness("c04_check_%s_d%d" % (n, d),
                                  {"type": n, "degree": d, "input": "%d messages, every finite %s with |x| <= 1e30" % (d, f),
                                   "oracle": "one message per neighbour; no NaN" + ("; sign = product of other signs" if sign == "true" else "") +
                                             ("; 0 <= |out| <= min other |in|" if mag == "true" else "")},
                                  2.0 + d * d, stubs="CONTRACT"),
                          "crate::c04_check_f!(c04_check_%s_d%d, %s, %s, crate::macros::any_%s_1e30, %d, %d, %s, %s);" % (n, d, n, f, f, d, d + 3, sign, mag)))
    # formula level for the float rules (SURROGATE math, exact small domain)
    fdegs = [2, 3] if tier == "quick" else [2, 3, 4]
    for t in arith.float_types():
        n, f, base = t["name"], t["f"], t["base"]
        fam = {"Phi": 0, "Tanh": 1, "Minstarapprox": 2, "Aminstar": 3}[base]
        clamp = "18.0" if f == "f64" else "9.0"
        for d in fdegs:
            if tier == "quick" and d == 3 and f == "f32" and base in ("Phi", "Tanh"):
                continue
            hn = "c04_formula_%s_d%d" % (n, d)
            dom = "tiny" if (base == "Aminstar" and d >= 3) else "small"   # A-Min* at degree 3: symbolic argmin + float miter (> 300 s on s in [-127,127])
            items.append((Harness(hn, {"type": n, "degree": d, "input": "%d messages on the exact domain s/8, s in %s" % (d, "[-7,7] plus -0.0" if dom == "tiny" else "[-127,127]"),
                                        "oracle": "documented formula of the %s rule evaluated with the same SURROGATE elementary functions (all operations exact on the domain, so algebraically equivalent implementations agree bit for bit)" % base},
                                  4.0 + d * d, stubs="SURROGATE", neighbourhood=True),
                          "crate::c04_formula_f!(%s, %s, %s, crate::macros::any_%s_%s, %d, %s, %d, %d);" % (hn, n, f, f, dom, fam, clamp, d, d + 3)))
    meta = {
        "functions": ["DecoderArithmetic::send_check_messages for each of the 24 arithmetic types (one harness per monomorphisation and degree)",
                      "impl_8bitquant!::{new, lookup}", "partial_hard_limit!", "the table round(8*ln(1+exp(-t/8))) built by new() (compared with an independently computed copy through the reference rule)"],
        "bounds": {"degrees_8bit": degs_i8, "degrees_float": degs_f, "unwind": "degree+3; table loop 26 via --unwindset"},
        "outside": ["degrees above the listed ones (statement: up to ~30)",
                    "float rules at formula level hold for the SURROGATE interpretation of tanh/atanh/ln/exp/ln_1p on the exact domain s/8 (a statement about which operands and folds the rule uses, not about numerical accuracy)",
                    "agreement of Phi/Tanh/A-Min* with 2*atanh(prod tanh(x/2)) and the (d-2)*ln2 band of min* (transcendental values have no faithful solver semantics here)",
                    "sign and magnitude clauses of Aminstarf32/64 (no floor at 0 in the code: sign of a rounding-noise-sized result is not decided by the CONTRACT stubs)",
                    "magnitude clause of Phi/Tanh float types"],
        "stubs": ["TABLE (8-bit types)", "CONTRACT (float types: tanh, atanh, ln, exp, ln_1p constrained by validated interval facts)"],
        "assumptions": ["8-bit message values are in [-127,127]; float messages finite with |x| <= 1e30",
                        "CONTRACT facts hold for the platform libm (validated on a grid by `cargo test` in the harness crate)"],
    }
    return {"prelude": PRELUDE, "items": items, "meta": meta, "nshards": 14, "timeout": 300 if tier == "quick" else 1800}
