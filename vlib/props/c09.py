"""C09 (core only) -- row echelon form that decides full rank and locates the pivot columns."""
from ..core import Harness

PRELUDE = """use ldpc_toolbox::verif_hooks::row_echelon_form;
use ldpc_toolbox::gf2::GF2;
use ndarray::Array2;
use num_traits::{One, Zero};
"""


def build(tier, seed):
    # measured: 2x3 240 s, 3x3 390 s, 2x4 590 s, 3x4 520 s (symbolic pivot row/column make every ndarray
    # slice symbolic); the quick tier stops at 3x4
    shapes = [(1, 1), (1, 3), (2, 2), (2, 3), (2, 4), (3, 3), (3, 4)] if tier == "quick" else \
             [(1, 1), (1, 2), (1, 3), (1, 4), (2, 2), (2, 3), (2, 4), (2, 5), (3, 3), (3, 4), (3, 5)]
    items = []
    for r, n in shapes:
        hn = "c09_echelon_%dx%d" % (r, n)
        unw = max(n, r) + 3
        us = [(r"Vec.*GF2.*extend_with", r * n + 3), (hn + r"\.\d+$", max(1 << r, n) + 3)]
        items.append((Harness(hn, {"shape": "%dx%d" % (r, n), "input": "ALL %d-entry binary matrices (every entry symbolic)" % (r * n),
                                    "oracle": "echelon shape; row-equivalent to the input (both directions); last row non-zero <=> full row rank; pivot columns invertible in the input"},
                              float(r * r * n), covers=(2 if r == n else None), unwindset=us),
                      "crate::c09_echelon!(%s, %d, %d, %d);" % (hn, r, n, unw)))
    meta = {
        "functions": ["linalg::row_echelon_form::<GF2> (through the verif-hooks re-export)", "gf2::GF2 ops", "ndarray::Array2 indexing/swap/slice used by it"],
        "bounds": {"shapes": ["%dx%d" % s for s in shapes], "unwind": "max(n,r)+3 globally; Vec::extend_with (zeros) r*n+3 and the harness's own subset-enumeration loops 2^r+3 via --unwindset"},
        "outside": ["systematic::parity_to_systematic wrapper: dense copy via iter_all(), the rank test expression, the column-moving loop and its internal assertions, the returned SparseMatrix -- unreachable (probe P14). The known panic on square / far-right-pivot inputs (assert!(k < m - n)) sits there and is NOT exhibited by this check.",
                    "shapes larger than listed"],
        "stubs": [],
        "assumptions": [],
    }
    return {"prelude": PRELUDE, "items": items, "meta": meta, "nshards": min(14, len(items)), "timeout": 900 if tier == "quick" else 10800, "rss_cap_gb": 8 if tier == "quick" else 14}
