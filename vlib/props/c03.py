"""C03 -- both decoding schedules are textbook belief propagation for any arithmetic."""
from ..core import Harness
from .. import families

PRELUDE = """use ldpc_toolbox::sparse::SparseMatrix;
"""


def family(tier, seed):
    if tier == "quick":
        return families.HQ
    return families.HQ + [families.JOHNSON] + families.all_small(2, 3) + families.all_small(2, 4) + families.random_family(seed, 4)


def build(tier, seed):
    fam = family(tier, seed)
    limits = [0, 1, 2] if tier == "quick" else [0, 1, 2, 3]
    items = []
    for sched, reffn in (("flooding", "ref_flooding"), ("horizontal_layered", "ref_layered")):
        for name, n, rows in fam:
            r = len(rows)
            for lim in limits:
                if tier == "quick" and lim >= 2 and name in ("stair3x5", "deg1w4_3x4"):
                    continue  # 170-330 s each locally, one hit the 400 s cap on the reference machine: thorough tier
                hn = "c03_%s_%s_l%d" % (sched, name, lim)
                unw = max(n, r, lim, 8) + 3
                w = 1.0 + lim * sum(len(x) for x in rows)
                items.append((Harness(hn, {"schedule": sched, "matrix": name, "iteration_limit": lim, "arithmetic": "checker-supplied exact integer min-sum (i32)",
                                            "input": "%d LLRs, every integer in [-2^20, 2^20]" % n}, w,
                                      # on trees min-sum converges: a failure after >= 2 iterations is unreachable there (1 of the 3 witnesses)
                                      covers=(2 if (lim >= 2 or (lim >= 1 and name.startswith("all"))) else None)),  # enumerated 2-row matrices include ones that always converge in one iteration
                              "crate::c03_sched!(%s, %s, %s, h_%s, HB_%s, %d, %d, %d, %d);" % (hn, sched, reffn, name, name, r, n, lim, unw)))
    meta = {
        "functions": ["flooding::Decoder<A>::{new, decode, initialize, process_check_nodes, process_variable_nodes} with A = checker-supplied MinSumI32",
                      "horizontal_layered::Decoder<A>::{new, decode, initialize, process_check_nodes}", "decoder::{Messages::send, Messages::from_iter, SentMessages::from_iter, check_llrs, hard_decisions}"],
        "bounds": {"matrices": families.describe(fam), "iteration_limits": limits, "llr_range": "integers in [-2^20, 2^20]", "unwind": "max(n, rows, 8, limit)+3"},
        "outside": ["the posterior-exactness clause for sum-product on cycle-free graphs (transcendental values)", "matrices / limits outside the lists",
                    "arithmetics other than the checker-supplied exact min-sum (its results are injective enough in the LLRs that any mis-routing, mis-ordering of layers, missing reset or misplaced syndrome test changes the result for some input, which the solver then finds)"],
        "stubs": [],
        "assumptions": ["reference schedules in harness/src/refmodels.rs (dense, index-based) are the textbook ones"],
    }
    return {"prelude": PRELUDE + families.rust_defs(fam), "items": items, "meta": meta, "nshards": 14, "timeout": 700 if tier == "quick" else 3600}
