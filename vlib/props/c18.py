"""C18 -- each decoder implementation name builds the arithmetic and schedule it names."""
from ..core import Harness
from .. import arith, families

PRELUDE = """use ldpc_toolbox::decoder::arithmetic::*;
use ldpc_toolbox::decoder::factory::{DecoderFactory, DecoderImplementation};
use ldpc_toolbox::decoder::{DecoderOutput, LdpcDecoder};
use ldpc_toolbox::sparse::SparseMatrix;
"""


def width_of(ty):
    t = arith.type_info(ty)
    if t["kind"] == "i8":
        return 8
    return 64 if t["f"] == "f64" else 32


def build(tier, seed):
    impls = arith.implementations()
    fam = [families.HQ[0], families.PAIR1X2]
    pre = PRELUDE + families.rust_defs(fam)
    pre += "static NAMES: [&str; 36] = [%s];\n" % ", ".join('"%s"' % n for n, _, _ in impls)
    pre += "static VARIANTS: [DecoderImplementation; 36] = [%s];\n" % ", ".join("DecoderImplementation::%s" % n for n, _, _ in impls)
    items = []
    items.append((Harness("c18_fromstr_any48", {"input": "every ASCII string of length <= 48 (symbolic bytes and length)",
                                                  "oracle": "Ok(v) iff the string is one of the 36 pinned names and v is the variant of that name; everything else Err"}, 20.0),
                  "crate::c18_fromstr!(c18_fromstr_any48, 48, 51);"))
    pair_h = fam
    for k, st in enumerate(["phif64", "HLTANHF32", "aminstari8jonesdeg1clip", "Phif64 ", "HLPhif", ""]):
        items.append((Harness("c18_reject_%d" % k, {"string": st, "oracle": "rejected"}, 2.0),
                      "crate::c18_reject!(c18_reject_%d, \"%s\", 51);" % (k, st)))
    limits = [1]   # (limit 2 through the factory: > 10 min per row)
    for idx, (impl, ty, sched) in enumerate(impls):
        kind = arith.type_info(ty)["kind"]
        stubs = "with_table_stubs" if kind == "i8" else "with_surrogate_stubs"
        names = set(n for n, _, _ in impls)
        near = [x for x in (impl.lower(), impl.upper(), impl.swapcase(), impl + " ", " " + impl, impl[:-1], impl[1:], impl + "0",
                            impl.replace("f64", "F64").replace("f32", "F32").replace("i8", "I8")) if x not in names]
        near = sorted(set(near))
        items.append((Harness("c18_name_%s" % impl, {"name": impl, "near_misses": near,
                                                       "oracle": "from_str(name) == variant; Display prints the identical string; the listed near misses are rejected"}, 2.0),
                      "crate::c18_name!(c18_name_%s, %d, 51, [%s]);" % (impl, idx, ", ".join('"%s"' % x for x in near))))
        items.append((Harness("c18_vlist_%s" % impl, {"name": impl, "oracle": "value_variants()[i] is this variant and its possible-value name is the identical string"}, 2.0),
                      "crate::c18_valuelist!(c18_vlist_%s, %d, 51);" % (impl, idx)))
    # pairing + width witness.  Rows are grouped (up to 3 per harness in the quick tier, 1 in the thorough
    # tier): each harness that reaches build_decoder pays ~130 s of tool I/O for a 68 MB goto binary.
    groups = {}
    for impl, ty, sched in impls:
        kind = arith.type_info(ty)["kind"]
        heavy = ("Aminstar" in ty and sched == "flooding")
        groups.setdefault((kind, heavy), []).append((impl, ty, sched))
    # type identity of every row (vtable of the built trait object == vtable of the generic decoder of the
    # documented arithmetic and schedule, boxed directly); 9 rows per harness
    by_kind = {"i8": [r_ for r_ in impls if arith.type_info(r_[1])["kind"] == "i8"],
               "float": [r_ for r_ in impls if arith.type_info(r_[1])["kind"] == "float"]}
    gno = 0
    for kind_, rows_k, per_t in (("i8", by_kind["i8"], 8), ("float", by_kind["float"], 6)):
        stubs_t = "with_table_stubs" if kind_ == "i8" else "with_surrogate_stubs"
        for gi in range(0, len(rows_k), per_t):
            chunk = rows_k[gi:gi + per_t]
            hn = "c18_types_%d" % gno
            gno += 1
            body = ";\n    ".join("%s, %s, %s, %s, %d" % (i, sc, t, "horizontal_layered" if sc == "flooding" else "flooding", width_of(t)) for i, t, sc in chunk)
            items.append((Harness(hn, {"names": [i for i, _, _ in chunk], "expected": ["%s::Decoder<%s>" % (sc, t) for i, t, sc in chunk],
                                        "oracle": "build_decoder(name) has the vtable of the expected type (then behaviour is identical by construction); if it has not, the row is decided behaviourally inside the same harness (width witness + differential decode on the 2x3 chain, symbolic LLRs)",
                                        "input": "concrete type-identity fact; symbolic LLRs only for rows whose type differs"}, 40.0,
                                  stubs="TABLE" if kind_ == "i8" else "SURROGATE", neighbourhood=True,
                                  covers=1),  # the witnesses inside the behavioural fallback are unreachable while every row has the documented type
                          "crate::c18_types!(%s, %s, 6;\n    %s);" % (hn, stubs_t, body)))
    # behavioural pairing + width witness through the factory: every row in the thorough tier, five representative
    # rows in the quick tier (each such harness costs 250-300 s; the 900 s budget does not hold 36 of them)
    QUICK_ROWS = ("Phif64", "HLTanhf32", "Minstarapproxi8JonesPartialHardLimitDeg1Clip", "HLAminstari8", "Aminstari8Jones", "HLMinstarapproxf64")
    per = 1
    for (kind, heavy), rows_ in sorted(groups.items()):
        # thorough: twelve rows (one per shard).  All 36 at once was tried: several harnesses per shard that reach
        # build_decoder make kani-compiler exceed the machine's memory (the kernel killed it in 3 of 10 shards).
        sel = QUICK_ROWS if tier == "quick" else QUICK_ROWS + ("Phif32", "Tanhf64", "Minstarapproxi8", "HLMinstarapproxi8PartialHardLimit", "HLAminstarf32", "Aminstarf64")
        rows_ = [r_ for r_ in rows_ if r_[0] in sel]
        if not rows_:
            continue
        stubs = "with_table_stubs" if kind == "i8" else "with_surrogate_stubs"
        # flooding A-Min*: the symbolic argmin makes message destinations symbolic; two decodes on a two-check
        # matrix exceed 8 GB / 600 s.  Quick tier: single-check 1x2 matrix for those rows (pins the arithmetic and
        # the width; flooding/layered are indistinguishable on one check; their schedule is pinned by the type-identity harnesses).
        variants = [("chain2x3", 3, False, "[-1.0, 1.0]", "[1, 0]")]
        if heavy:
            variants = [("pair1x2", 2, True, "[-1.0]", "[1]")] + (variants if tier == "thorough" else [])
        for hname, n, xpos, wl, we in variants:
            for lim in limits:
                for gi in range(0, len(rows_), per):
                    chunk = rows_[gi:gi + per]
                    hn = "c18_pair_%s_%s_l%d" % ("_".join(i for i, _, _ in chunk), hname, lim)
                    body = ";\n    ".join("%s, %s, %s, %d" % (i, sc, t, width_of(t)) for i, t, sc in chunk)
                    items.append((Harness(hn, {"names": [i for i, _, _ in chunk], "expected": ["%s::Decoder<%s>" % (sc, t) for i, t, sc in chunk],
                                                "matrix": hname, "iteration_limit": lim,
                                                "input": "width witness: one LLR over every f64 with |x| <= 1e30; pairing: %d LLRs from the domain s*2^-e, s in [-127,127], e in {0,3,30}" % n,
                                                "oracle": "per name: zero-iteration failure word = hard decisions of the input quantised at the named precision; identical (verdict, word, iterations) to the generic decoder built directly"},
                                          (30.0 + 20.0 * len(chunk)) * lim, stubs="TABLE" if kind == "i8" else "SURROGATE", neighbourhood=True),
                                  "crate::c18_pairs!(%s, %s, %d, h_%s, %d, %s, %s, %s, %d;\n    %s);" % (hn, stubs, lim, hname, n, "true" if xpos else "false", wl, we, 3 + 3, body)))
    meta = {
        "functions": ["DecoderImplementation::{from_str, fmt (Display), value_variants, to_possible_value, build_decoder}", "flooding::Decoder::{new, decode}", "horizontal_layered::Decoder::{new, decode}", "all 24 DecoderArithmetic impls"],
        "bounds": {"string_length": "<= 48 ASCII bytes", "pair_matrices": families.describe(pair_h), "pair_limits": limits,
                   "pair_llr_domain": "s*2^-e, s in [-127,127], e in {0,3,30} (equivalence of two float runs is a miter: small domain, DESIGN P24)"},
        "outside": ["non-ASCII strings and strings longer than 48 bytes",
                    "type identity is observed through the vtable pointer of the trait object (layout of *const dyn as (data, vtable)); a toolchain that duplicated vtables would make this check fail on a correct tree (it does not under Kani 0.68)",
                    "the behavioural differential through the factory runs for six representative rows (thorough: twelve); all 36 rows are pinned by type identity with a behavioural fallback", "the C API and CLI call sites of from_str",
                    "float rows: pairing holds for the SURROGATE interpretation of the math functions on the small LLR domain; the working precision is pinned separately by the width witness on all f64"],
        "stubs": ["TABLE (8-bit rows)", "SURROGATE (float rows)"],
        "assumptions": ["the expected (arithmetic, schedule) of each name is pinned from the documentation in vlib/arith.py (HL prefix = horizontal layered)"],
    }
    return {"prelude": pre, "items": items, "meta": meta, "nshards": 14, "timeout": 700 if tier == "quick" else 3600, "rss_cap_gb": 10 if tier == "quick" else 14}
