"""C18 -- each decoder implementation name builds the arithmetic and schedule it names."""
from ..core import Harness
from .. import arith, families

PRELUDE = """use ldpc_toolbox::decoder::arithmetic::*;
use ldpc_toolbox::decoder::factory::{DecoderFactory, DecoderImplementation};
use ldpc_toolbox::decoder::{DecoderOutput, LdpcDecoder};
use ldpc_toolbox::sparse::SparseMatrix;
"""


def width_of(ty):
    t = arith.type_info(ty)
    if t["kind"] == "i8":
        return 8
    return 64 if t["f"] == "f64" else 32


def build(tier, seed):
    impls = arith.implementations()
    fam = [families.HQ[0], families.PAIR1X2]
    pre = PRELUDE + families.rust_defs(fam)
    pre += "static NAMES: [&str; 36] = [%s];\n" % ", ".join('"%s"' % n for n, _, _ in impls)
    pre += "static VARIANTS: [DecoderImplementation; 36] = [%s];\n" % ", ".join("DecoderImplementation::%s" % n for n, _, _ in impls)
    items = []
    items.append((Harness("c18_fromstr_any48", {"input": "every ASCII string of length <= 48 (symbolic bytes and length)",
                                                  "oracle": "Ok(v) iff the string is one of the 36 pinned names and v is the variant of that name; everything else Err"}, 20.0),
                  "crate::c18_fromstr!(c18_fromstr_any48, 48, 51);"))
    pair_h = fam
    limits = [1] if tier == "quick" else [1, 2]
    for idx, (impl, ty, sched) in enumerate(impls):
        kind = arith.type_info(ty)["kind"]
        stubs = "with_table_stubs" if kind == "i8" else "with_surrogate_stubs"
        items.append((Harness("c18_name_%s" % impl, {"name": impl, "oracle": "from_str(name) == variant; Display prints the identical string"}, 2.0),
                      "crate::c18_name!(c18_name_%s, %d, 51);" % (impl, idx)))
        items.append((Harness("c18_vlist_%s" % impl, {"name": impl, "oracle": "value_variants()[i] is this variant and its possible-value name is the identical string"}, 2.0),
                      "crate::c18_valuelist!(c18_vlist_%s, %d, 51);" % (impl, idx)))
        w = width_of(ty)
        for lim in limits:
            heavy = ("Aminstar" in ty and sched == "flooding")
            # flooding A-Min*: the symbolic argmin makes message destinations symbolic; two decodes on a
            # two-check matrix exceed 8 GB / 600 s.  Quick tier: single-check 1x2 matrix for those rows (pins the
            # arithmetic and the width; flooding/layered are indistinguishable on one check -> thorough tier).
            variants = [("chain2x3", 3, False, "[-1.0, 1.0]", "[1, 0]")]
            if heavy:
                variants = [("pair1x2", 2, True, "[-1.0]", "[1]")] + (variants if tier == "thorough" else [])
            for hname, n, xpos, wl, we in variants:
                hn = "c18_pair_%s_%s_l%d" % (impl, hname, lim)
                items.append((Harness(hn, {"name": impl, "expected": "%s::Decoder<%s>" % (sched, ty), "matrix": hname, "iteration_limit": lim,
                                            "input": "width witness: one LLR over every f64 with |x| <= 1e30; pairing: %d LLRs from the domain s*2^-e, s in [-127,127], e in {0,3,30}" % n,
                                            "oracle": "zero-iteration failure word = hard decisions of the input quantised at the named precision (%d bit); identical (verdict, word, iterations) to the generic decoder built directly" % w},
                                      30.0 * lim * (2 if heavy else 1), stubs="TABLE" if kind == "i8" else "SURROGATE"),
                              "crate::c18_pair!(%s, %s, %s, %s, %s, %d, %d, h_%s, %d, %s, %s, %s, %d);" % (hn, stubs, impl, sched, ty, w, lim, hname, n, "true" if xpos else "false", wl, we, 3 + 3)))
    meta = {
        "functions": ["DecoderImplementation::{from_str, fmt (Display), value_variants, to_possible_value, build_decoder}", "flooding::Decoder::{new, decode}", "horizontal_layered::Decoder::{new, decode}", "all 24 DecoderArithmetic impls"],
        "bounds": {"string_length": "<= 48 ASCII bytes", "pair_matrices": families.describe(pair_h), "pair_limits": limits,
                   "pair_llr_domain": "s*2^-e, s in [-127,127], e in {0,3,30} (equivalence of two float runs is a miter: small domain, DESIGN P24)"},
        "outside": ["non-ASCII strings and strings longer than 48 bytes", "the C API and CLI call sites of from_str",
                    "float rows: pairing holds for the SURROGATE interpretation of the math functions on the small LLR domain; the working precision is pinned separately by the width witness on all f64"],
        "stubs": ["TABLE (8-bit rows)", "SURROGATE (float rows)"],
        "assumptions": ["the expected (arithmetic, schedule) of each name is pinned from the documentation in vlib/arith.py (HL prefix = horizontal layered)"],
    }
    return {"prelude": pre, "items": items, "meta": meta, "nshards": 14, "timeout": 600 if tier == "quick" else 2400}
