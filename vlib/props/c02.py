"""C02 (core only) -- Gauss-Jordan elimination that decides whether the systematic encoder
exists and produces its generator; GF(2) arithmetic."""
from ..core import Harness

PRELUDE = """use ldpc_toolbox::verif_hooks::gauss_reduction;
use ldpc_toolbox::gf2::GF2;
use ndarray::Array2;
use num_traits::{One, Zero};
"""


def build(tier, seed):
    shapes = [(1, 2), (1, 1), (2, 2), (2, 3), (2, 4), (3, 3), (3, 4), (3, 5)] if tier == "quick" else \
             [(1, 1), (1, 2), (1, 3), (2, 2), (2, 3), (2, 4), (2, 5), (3, 3), (3, 4), (3, 5), (3, 6), (4, 4), (4, 5), (4, 6)]
    items = []
    for r, n in shapes:
        hn = "c02_gauss_%dx%d" % (r, n)
        unw = max(n, r) + 3
        us = [(r"Vec.*GF2.*extend_with", r * n + 3), (hn + r"\.\d+$", max(1 << r, n) + 3)]
        items.append((Harness(hn, {"shape": "%dx%d" % (r, n), "input": "ALL %d-entry binary matrices (every entry symbolic)" % (r * n),
                                    "oracle": "Err <=> left block singular (subset-sum reference); Ok => [I|X] and B*X == C"}, float(r * r * n), covers=(2 if r == 1 else None), unwindset=us),
                      "crate::c02_gauss!(%s, %d, %d, %d);" % (hn, r, n, unw)))
    items.append((Harness("c02_gf2_ops", {"input": "all operand pairs", "oracle": "xor/and/identity"}, 0.5), "crate::c02_gf2!(c02_gf2_ops);"))
    items.append((Harness("c02_gf2_div0_zero", {"input": "0/0", "oracle": "panics"}, 0.5, covers=0), "crate::c02_gf2_div0!(c02_gf2_div0_zero, false);"))
    items.append((Harness("c02_gf2_div0_one", {"input": "1/0", "oracle": "panics"}, 0.5, covers=0), "crate::c02_gf2_div0!(c02_gf2_div0_one, true);"))
    meta = {
        "functions": ["linalg::gauss_reduction::<GF2> (through the verif-hooks re-export)", "gf2::GF2 {Add, Sub, Mul, Div, Zero, One, AddAssign, MulAssign}", "ndarray::Array2 indexing/swap/slice used by it"],
        "bounds": {"shapes": ["%dx%d" % s for s in shapes], "unwind": "max(n,r)+3 globally; Vec::extend_with (zeros) r*n+3 and the harness's own subset-enumeration loops 2^r+3 via --unwindset"},
        "outside": ["Encoder::from_h wrapper: column rotation [H0 H1]->[H1 H0], slicing, staircase detection, staircase accumulate path, Encoder::encode (dot/concatenate) -- unreachable: SparseMatrix::iter_all() defeats symbolic execution even on concrete input (probe P14)",
                    "shapes larger than listed"],
        "stubs": [],
        "assumptions": ["with B = H1 (last r columns) and C = H0 the asserted facts are exactly: encoder exists iff H1 invertible, else error; parity = X*m satisfies H0*m + H1*X*m = 0"],
    }
    return {"prelude": PRELUDE, "items": items, "meta": meta, "nshards": min(14, len(items)), "timeout": 900 if tier == "quick" else 10800, "rss_cap_gb": 8 if tier == "quick" else 14}
