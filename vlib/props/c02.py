"""C02 (core only) -- Gauss-Jordan elimination that decides whether the systematic encoder
exists and produces its generator; GF(2) arithmetic."""
from ..core import Harness

PRELUDE = """use ldpc_toolbox::verif_hooks::gauss_reduction;
use ldpc_toolbox::encoder::Encoder;
use ldpc_toolbox::sparse::SparseMatrix;
use ldpc_toolbox::gf2::GF2;
use ndarray::Array2;
use num_traits::{One, Zero};
"""


def build(tier, seed):
    shapes = [(1, 2), (1, 1), (2, 2), (2, 3), (2, 4), (3, 3), (3, 4), (3, 5)] if tier == "quick" else \
             [(1, 1), (1, 2), (1, 3), (2, 2), (2, 3), (2, 4), (2, 5), (3, 3), (3, 4), (3, 5), (3, 6), (4, 4), (4, 5)]
    items = []
    for r, n in shapes:
        hn = "c02_gauss_%dx%d" % (r, n)
        unw = max(n, r) + 3
        us = [(r"Vec.*GF2.*extend_with", r * n + 3), (hn + r"\.\d+$", max(1 << r, n) + 3)]
        items.append((Harness(hn, {"shape": "%dx%d" % (r, n), "input": "ALL %d-entry binary matrices (every entry symbolic)" % (r * n),
                                    "oracle": "Err <=> left block singular (subset-sum reference); Ok => [I|X] and B*X == C"}, float(r * r * n), covers=(2 if r == 1 else None), unwindset=us),
                      "crate::c02_gauss!(%s, %d, %d, %d);" % (hn, r, n, unw)))
    # encode(): both encoder kinds, built from a generator part through the verif-hooks constructors
    dense = [(1, 1), (2, 2), (2, 3), (3, 2)] if tier == "quick" else [(1, 1), (1, 3), (2, 2), (2, 3), (3, 2), (3, 3), (3, 4), (4, 3)]
    for r, k in dense:
        hn = "c02_encode_dense_r%dk%d" % (r, k)
        us = [(r"Vec.*GF2.*extend_with", max(r * k, r + k) + 3)]
        items.append((Harness(hn, {"kind": "DenseGenerator", "parity_bits": r, "message_bits": k, "input": "every %dx%d generator part and every pair of messages" % (r, k),
                                    "oracle": "word = [message | G*message]; encode(m1+m2) == encode(m1)+encode(m2)"}, 3.0 + r * k, unwindset=us),
                      "crate::c02_encode_dense!(%s, %d, %d, %d);" % (hn, r, k, r + k + 3)))
    # (one H0 with an all-zero row: the running sum must still be carried through it)
    stair = [("s3x2", 2, [[0], [0, 1], [1]]), ("s2x3", 3, [[0, 1], [1, 2]]), ("s3x2z", 2, [[0, 1], [], [1]])]
    if tier != "quick":
        stair += [("s4x3", 3, [[0, 2], [1], [0, 1, 2], [2]]), ("s3x4", 4, [[0, 3], [1, 2], [0, 1, 2, 3]])]
    global EXTRA
    EXTRA = ""
    for nm, k, rows in stair:
        r = len(rows)
        EXTRA += "fn h0_%s() -> SparseMatrix {\n    let mut h = SparseMatrix::new(%d, %d);\n" % (nm, r, k)
        for i, rw in enumerate(rows):
            if rw:
                EXTRA += "    h.insert_row(%d, [%s].iter());\n" % (i, ", ".join("%dusize" % c for c in rw))
        EXTRA += "    h\n}\n"
        EXTRA += "const H0B_%s: [[bool; %d]; %d] = [%s];\n" % (nm, k, r, ", ".join("[" + ", ".join("true" if c in rw else "false" for c in range(k)) + "]" for rw in rows))
        hn = "c02_encode_stair_%s" % nm
        us = [(r"Vec.*GF2.*extend_with", r + k + 3)]
        items.append((Harness(hn, {"kind": "Staircase", "H0_rows": rows, "message_bits": k, "input": "every message",
                                    "oracle": "word starts with the message and satisfies every check of H = [H0 | dual diagonal]"}, 4.0 + r * k, unwindset=us),
                      "crate::c02_encode_staircase!(%s, h0_%s, H0B_%s, %d, %d, %d);" % (hn, nm, nm, r, k, r + k + 3)))
    items.append((Harness("c02_gf2_ops", {"input": "all operand pairs", "oracle": "xor/and/identity"}, 0.5), "crate::c02_gf2!(c02_gf2_ops);"))
    items.append((Harness("c02_gf2_div0_zero", {"input": "0/0", "oracle": "panics"}, 0.5, covers=0), "crate::c02_gf2_div0!(c02_gf2_div0_zero, false);"))
    items.append((Harness("c02_gf2_div0_one", {"input": "1/0", "oracle": "panics"}, 0.5, covers=0), "crate::c02_gf2_div0!(c02_gf2_div0_one, true);"))
    meta = {
        "functions": ["Encoder::encode for both encoder kinds (built through the verif-hooks constructors verif_from_dense_generator / verif_from_staircase_generator)",
                      "linalg::gauss_reduction::<GF2> (through the verif-hooks re-export)", "gf2::GF2 {Add, Sub, Mul, Div, Zero, One, AddAssign, MulAssign}", "ndarray::Array2 indexing/swap/slice used by it"],
        "bounds": {"shapes": ["%dx%d" % s for s in shapes], "unwind": "max(n,r)+3 globally; Vec::extend_with (zeros) r*n+3 and the harness's own subset-enumeration loops 2^r+3 via --unwindset"},
        "outside": ["Encoder::from_h glue: dense copy with column rotation [H0 H1]->[H1 H0], slicing of the reduced matrix, staircase detection (is_staircase) and extraction of H0 -- from_h on a concrete 2x4 H did not finish symbolic execution in 25 min even with tight unwinding (re-probed: 1271 s symex, 2.7 M steps, no verdict)",
                    "the composition of the three verified pieces (gauss core, dense encode, staircase encode) into H*word == 0 for from_h-built encoders relies on that glue",
                    "shapes larger than listed"],
        "stubs": [],
        "assumptions": ["with B = H1 (last r columns) and C = H0 the asserted facts are exactly: encoder exists iff H1 invertible, else error; parity = X*m satisfies H0*m + H1*X*m = 0"],
    }
    return {"prelude": PRELUDE + EXTRA, "items": items, "meta": meta, "nshards": min(14, len(items)), "timeout": 900 if tier == "quick" else 10800, "rss_cap_gb": 8 if tier == "quick" else 14}
