"""C05 -- variable updates are exact saturating sums; 8-bit arithmetic never overflows."""
from ..core import Harness
from .. import arith

PRELUDE = """use ldpc_toolbox::decoder::arithmetic::*;
use ldpc_toolbox::decoder::{Message, SentMessage};
"""


def build(tier, seed):
    items = []
    degs_i8 = [1, 2, 3, 6] if tier == "quick" else [1, 2, 3, 4, 5, 6, 8, 12]
    degs_f = [1, 2, 3] if tier == "quick" else [1, 2, 3, 4, 6]
    lay_degs = [2, 3] if tier == "quick" else [2, 3, 4, 5]
    lay3_quick = ("Minstarapproxi8", "Aminstari8", "Minstarapproxi8JonesPartialHardLimitDeg1Clip", "Aminstari8JonesPartialHardLimitDeg1Clip")
    for t in arith.i8_types():
        n = t["name"]
        items.append((Harness("c05_quant_" + n, {"type": n, "input": "every f64 bit pattern (incl. NaN, inf)"}, 1.0, stubs="TABLE"),
                      "crate::c05_quant_i8!(c05_quant_%s, %s);" % (n, n)))
        items.append((Harness("c05_varllr_" + n, {"type": n, "input": "every i16"}, 1.0, stubs="TABLE"),
                      "crate::c05_varllr_i8!(c05_varllr_%s, %s);" % (n, n)))
        for d in degs_i8:
            items.append((Harness("c05_var_%s_d%d" % (n, d),
                                  {"type": n, "degree": d, "input": "channel LLR and %d messages, each every value in [-127,127]" % d},
                                  1.5 + 0.5 * d, stubs="TABLE"),
                          "crate::c05_var_i8!(c05_var_%s_d%d, %s, %s, %d, %d);" % (n, d, n, arith.cfg_expr(t), d, d + 3)))
        for d in lay_degs:
            if tier == "quick" and d > 2 and n not in lay3_quick:
                continue
            items.append((Harness("c05_lay_%s_d%d" % (n, d),
                                  {"type": n, "degree": d, "input": "old check messages in [-127,127], variable LLRs with |v| <= 25527 (= 127*(200+1))"},
                                  3.0 + d, stubs="TABLE"),
                          "crate::c05_layered_i8!(c05_lay_%s_d%d, %s, %d, %d);" % (n, d, n, d, d + 3)))
    # large degree: one per clipping variant (quick: 200 for the plain and the Jones+Deg1 variants)
    big = [("Minstarapproxi8", 200), ("Aminstari8JonesDeg1Clip", 200)] if tier == "quick" else \
          [(t["name"], 200) for t in arith.i8_types()]
    for n, d in big:
        items.append((Harness("c05_varbig_%s_d%d" % (n, d), {"type": n, "degree": d, "input": "%d messages, each every value in [-127,127]; overflow freedom and saturating total" % d},
                              12.0, stubs="TABLE"),
                      "crate::c05_var_i8_big!(c05_varbig_%s_d%d, %s, %d, %d);" % (n, d, n, d, d + 2)))
    for t in arith.float_types():
        n, f = t["name"], t["f"]
        items.append((Harness("c05_quant_" + n, {"type": n, "input": "every non-NaN f64"}, 0.5),
                      "crate::c05_quant_f!(c05_quant_%s, %s, %s);" % (n, n, f)))
        for d in degs_f:
            dom = "grid" if d == 1 else "small"
            items.append((Harness("c05_var_%s_d%d" % (n, d), {"type": n, "degree": d, "input": "exact grid k/8, |k|<=2^20" if d == 1 else "small domain s/8, s in [-127,127] (all summation orders agree bit-for-bit)"}, 1.0 + d),
                          "crate::c05_var_f!(c05_var_%s_d%d, %s, %s, crate::macros::any_%s_%s, %d, %d);" % (n, d, n, f, f, dom, d, d + 3)))
        for d in lay_degs:
            if tier == "quick" and d > 2:
                continue  # > 300 s per harness (float miter); thorough tier only
            if tier == "thorough" and d > 3:
                continue
            dom = "tiny" if (tier == "quick" or (t["base"] == "Aminstar" and d >= 3)) else "small"   # A-Min* d3 on |s|<=127: > 1800 s
            txt = "s/8, s in [-7,7]" if dom == "tiny" else "s/8, s in [-127,127]"
            items.append((Harness("c05_lay_%s_d%d" % (n, d), {"type": n, "degree": d, "input": "domain %s; SURROGATE math on both sides" % txt}, 3.0 + d, stubs="SURROGATE", neighbourhood=True),
                          "crate::c05_layered_f!(c05_lay_%s_d%d, %s, %s, crate::macros::any_%s_%s, %d, %d);" % (n, d, n, f, f, dom, d, d + 3)))
    meta = {
        "functions": ["DecoderArithmetic::{input_llr_quantize, llr_hard_decision, llr_to_var_message, llr_to_var_llr, var_llr_to_llr, send_var_messages, send_check_messages, update_check_messages_and_vars} for each of the 24 arithmetic types (one harness per monomorphisation)",
                      "impl_8bitquant!::{new, lookup, clip}", "send_var_messages_no_clip"],
        "bounds": {"degrees_8bit_var": degs_i8, "degrees_float_var": degs_f, "degrees_layered": lay_degs,
                   "large_degree": [list(x) for x in big], "float_layered": "quick: degree 2, domain s/8 with |s|<=7; thorough: degrees 2-3, |s|<=127", "unwind": "degree+3 per harness; table-construction loop 26 via --unwindset"},
        "outside": ["degrees not listed", "float sums off the exact grid (rounding-order dependent)",
                    "layered/flooding consistency for float types holds for the SURROGATE interpretation of tanh/atanh/ln/exp/ln_1p"],
        "stubs": ["TABLE (f64::exp, f64::ln_1p exact on the 128 table arguments)", "SURROGATE (float layered harnesses only)"],
        "assumptions": ["Rust overflow checks are on (Kani compiles with -C overflow-checks=on): any i8/i16 overflow is a failed check",
                        "8-bit message values are in [-127,127] (the statement's range)"],
    }
    return {"prelude": PRELUDE, "items": items, "meta": meta, "nshards": 14, "timeout": 300 if tier == "quick" else 1800}
