"""C19 (wrapper logic only) -- the C interface is a faithful wrapper of the Rust encoder and decoder."""
from ..core import Harness

PRELUDE = """use ldpc_toolbox::verif_hooks::{VerifCDecoder, VerifCEncoder};
use ldpc_toolbox::simulation::puncturing::Puncturer;
use ldpc_toolbox::encoder::Encoder;
use ldpc_toolbox::gf2::GF2;
use ndarray::Array2;
use num_traits::{One, Zero};
"""


def lit(p):
    return "[" + ", ".join("true" if b else "false" for b in p) + "]"


def build(tier, seed):
    items = []
    # decoder wrapper: (has pattern, pattern, block size, output_len)
    dec = [(False, (True,), 4, 4), (False, (True,), 4, 2), (True, (True, False, True), 2, 6), (True, (True, True, False), 1, 2), (True, (False, True), 2, 4)]
    if tier == "thorough":
        dec += [(False, (True,), 6, 0), (True, (True, False, False, True), 2, 8), (True, (True, False, True, True, False), 1, 3), (True, (True, True), 3, 5)]
    for fty, method in (("f64", "decode_f64"), ("f32", "decode_f32")):
        for haspat, pat, bs, outlen in dec:
            ps = "".join("1" if b else "0" for b in pat) if haspat else "none"
            n = len(pat) * bs
            hn = "c19_dec_%s_p%s_b%d_o%d" % (fty, ps, bs, outlen)
            items.append((Harness(hn, {"entry": method, "puncturing": ps, "codeword_len": n, "output_len": outlen,
                                        "input": "every LLR buffer (%s), every decoder behaviour (verdict, word, iteration count <= limit), every u32 limit" % fty,
                                        "oracle": "returns iterations on success / -1 on failure; output = leading bits of the decoder's word; decoder called once with the limit and the depunctured LLRs (exact +0.0 in removed blocks; f32 widened exactly)"},
                                  3.0 + n * 0.5),
                          "crate::c19_decode!(%s, %s, %s, %s, %s, %d, %d, %d, %d);" % (hn, fty, method, "true" if haspat else "false", lit(pat), len(pat), bs, outlen, max(n, 12) + 3)))
    enc = [(False, (True,), 2, 2), (True, (True, False), 2, 2), (True, (True, True, False), 1, 2)]
    if tier == "thorough":
        enc += [(True, (False, True, True), 2, 4), (False, (True,), 3, 3), (True, (True, False, True, False, True), 2, 3)]
    for haspat, pat, r, k in enc:
        ps = "".join("1" if b else "0" for b in pat) if haspat else "none"
        hn = "c19_enc_p%s_r%dk%d" % (ps, r, k)
        us = [(r"Vec.*GF2.*extend_with", r * k + r + k + 3)]
        items.append((Harness(hn, {"entry": "encode", "puncturing": ps, "parity_bits": r, "message_bits": k,
                                    "input": "every %dx%d dense generator part, every input byte buffer (a byte == 1 is the bit 1, anything else 0)" % (r, k),
                                    "oracle": "output = punctured systematic codeword [m | G*m], kept blocks in order, exact length"}, 6.0 + r * k, unwindset=us),
                      "crate::c19_encode!(%s, %s, %s, %d, %d, %d, %d);" % (hn, "true" if haspat else "false", lit(pat), len(pat), r, k, max(r + k, 8) + 3)))
    meta = {
        "functions": ["c_api::decoder::Decoder::{decode_f64, decode_f32} and c_api::encoder::Encoder::encode (through the verif-hooks wrappers VerifCDecoder / VerifCEncoder)",
                      "Puncturer::{depuncture, puncture}", "Encoder::encode (dense generator)"],
        "bounds": {"decoder_cases": [str(d) for d in dec], "encoder_cases": [str(e) for e in enc]},
        "outside": ["the extern \"C\" functions themselves (pointer/length -> slice, CStr -> String): Kani cannot call exported C symbols (probe P13)",
                    "constructors: alist parsing (P12), implementation-name and puncturing-pattern parsing, file reading, null on error",
                    "the decoder behind the handle is a checker-supplied scripted LdpcDecoder (any verdict/word/iterations): the wrapper is shown faithful for ANY decoder; which decoder a name builds is C18, what it computes is C01/C10",
                    "'repeated calls on one handle are independent' reduces to C10 (the wrapper keeps no state of its own; not re-checked here)",
                    "iteration counts above i32::MAX (the wrapper would panic in i32::try_from; no real decoder returns them)"],
        "stubs": [],
        "assumptions": ["output_len <= codeword length (C caller contract)", "scripted iteration count <= max_iterations and <= i32::MAX"],
    }
    return {"prelude": PRELUDE, "items": items, "meta": meta, "nshards": min(13, len(items)), "timeout": 600 if tier == "quick" else 2400}
