"""C07 (pi kernel, M, tables only) -- CCSDS AR4JA and C2 codes conform to CCSDS 131.0-B."""
import json, os
from ..core import Harness, VERIF

PRELUDE = """use ldpc_toolbox::codes::ccsds::{AR4JACode, AR4JAInfoSize, AR4JARate, C2Code};
"""

# CCSDS 131.0-B Table 7-2 (transcribed, not read from the tree)
M_TABLE = {("R1_2", "K1024"): 512, ("R2_3", "K1024"): 256, ("R4_5", "K1024"): 128,
           ("R1_2", "K4096"): 2048, ("R2_3", "K4096"): 1024, ("R4_5", "K4096"): 512,
           ("R1_2", "K16384"): 8192, ("R2_3", "K16384"): 4096, ("R4_5", "K16384"): 2048}
MS = [128, 256, 512, 1024, 2048, 4096, 8192]


def build(tier, seed):
    pins = json.load(open(os.path.join(VERIF, "pins", "tree_snapshot.json")))["ccsds"]
    pre = PRELUDE
    pre += "static PIN_THETA: [usize; 26] = %s;\n" % json.dumps(pins["theta"])
    phi = [pins["phi"][str(m)] for m in MS]  # [mi][j][k-1]
    pre += "static PIN_PHI: [[[usize; 26]; 4]; 7] = %s;\n" % json.dumps(phi)
    pre += "static PIN_C2: [[[u16; 2]; 16]; 2] = %s;\n" % json.dumps(pins["c2_circulants"])
    items = []
    for (rate, size), m in M_TABLE.items():
        hn = "c07_pi_%s_%s" % (rate, size)
        items.append((Harness(hn, {"code": "%s/%s" % (rate, size), "M": m, "input": "k in 1..=26, i and i2 in 0..M, all symbolic",
                                    "oracle": "M of Table 7-2; pi < M; quarter/circulant law vs pinned theta/phi; injective; consecutive inputs inside a quarter map to cyclically consecutive outputs"},
                              1.0 + m / 1024.0),
                      "crate::c07_pi!(%s, %s, %s, %d, %d, 8);" % (hn, rate, size, m, MS.index(m))))
    items.append((Harness("c07_c2_circulants", {"input": "symbolic (row block, column block)", "oracle": "each shift < 511, two distinct shifts per block, == pinned copy"}, 1.0),
                  "crate::c07_c2!(c07_c2_circulants);"))
    meta = {
        "functions": ["codes::ccsds::AR4JACode::{new, m, theta, phi, pi} and M::log2 through the verif-hooks accessors (9 codes, one harness each)", "THETA_K, PHI_K, C2_CIRCULANTS"],
        "bounds": {"codes": ["%s/%s" % k for k in M_TABLE], "k": "1..=26", "i": "0..M (all)"},
        "outside": ["AR4JACode::h() block placement / toggling, C2Code::h() circulant expansion (full-size matrices: thousands of heap insertions, see C06)",
                    "ranks, girth, encoder acceptance, equality of the full matrices",
                    "theta/phi/circulant pins are a snapshot of the tree validated by the permutation/circulant laws, not an independent transcription of Tables 7-3/7-4/7-1; M is transcribed from Table 7-2"],
        "stubs": [],
        "assumptions": [],
    }
    return {"prelude": pre, "items": items, "meta": meta, "nshards": 10, "timeout": 600 if tier == "quick" else 1800}
