"""C15 -- interleaving and puncturing are exact, invertible re-orderings."""
import itertools
from ..core import Harness

PRELUDE = """use ldpc_toolbox::simulation::interleaving::Interleaver;
use ldpc_toolbox::simulation::puncturing::Puncturer;
"""


def build(tier, seed):
    items = []
    if tier == "quick":
        shapes = [(1, 1), (1, 3), (2, 1), (2, 2), (3, 2), (2, 3)]
        p3 = [p for n in (1, 2, 3) for p in itertools.product([False, True], repeat=n) if any(p)]
        cases = [(p, 1) for p in p3] + [(p, 2) for p in [(True, True, False), (True, False, True), (False, True, True),
                                                          (True, True, False, True, False), (False, False, False, True), (False, True, True, False, True)]]
    else:
        shapes = [(c, r) for c in range(1, 7) for r in range(1, 6) if c * r <= 20]
        pats = [p for n in (1, 2, 3, 4, 5) for p in itertools.product([False, True], repeat=n) if any(p)]
        cases = [(p, bs) for p in pats for bs in (1, 2, 3)]
    pats = sorted(set(p for p, _ in cases))
    bss = sorted(set(b for _, b in cases))
    for c, r in shapes:
        for back in (False, True):
            for ty in (["u8"] if (tier == "quick" and (c, r) != (3, 2)) else ["u8", "u32"]):
                hn = "c15_il_%s_c%dr%d_%s" % (ty, c, r, "bwd" if back else "fwd")
                items.append((Harness(hn, {"columns": c, "rows": r, "backward": back, "element": ty, "input": "all %d-element vectors" % (c * r),
                                            "oracle": "out[r*C+c] == in[c*R+r] (reversed columns if backward); deinterleave(interleave(x)) == x (the index law makes interleave a bijection, so this is the two-sided inverse)"},
                                      1.0 + c * r * 0.7),
                              "crate::c15_interleave!(%s, %s, %d, %d, %s, %d);" % (hn, ty, c, r, "true" if back else "false", max(c * r * 4, 17) + 3)))
    for p, bs in cases:
        if True:
            ps = "".join("1" if b else "0" for b in p)
            hn = "c15_punct_p%s_b%d" % (ps, bs)
            lit = "[" + ", ".join("true" if b else "false" for b in p) + "]"
            L = len(p) * bs
            items.append((Harness(hn, {"pattern": ps, "block_size": bs, "input": "all %d-byte codewords, all f64 LLR vectors" % L,
                                        "oracle": "kept blocks in order; depuncture restores with exact zeros; rate; indivisible lengths -> Err"}, 1.0 + L * 0.5),
                          "crate::c15_puncture!(%s, %s, %d, %d, %d);" % (hn, lit, len(p), bs, max(L * 8, 16) + 3)))
    meta = {
        "functions": ["Interleaver::{new, interleave, deinterleave}", "Puncturer::{new, puncture, depuncture, rate}", "the ndarray reshape/transpose/invert_axis/assign/slice calls they make"],
        "bounds": {"interleaver_shapes_CxR": ["%dx%d" % s for s in shapes], "patterns": ["".join("1" if b else "0" for b in p) for p in pats], "block_sizes": bss,
                   "element_types": ["u8", "u32"]},
        "outside": ["shapes / patterns / block sizes beyond the lists", "patterns without any true (excluded by the statement)", "element types other than u8/u32 (interleaver) and u8/f64 (puncturer)"],
        "stubs": [],
        "assumptions": ["the pattern and shape are concrete per harness (they determine allocation sizes = structure); contents are fully symbolic"],
    }
    return {"prelude": PRELUDE, "items": items, "meta": meta, "nshards": 10, "timeout": 600 if tier == "quick" else 3000}
