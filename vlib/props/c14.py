"""C14 (partial) -- demodulator LLRs / constellation."""
import struct
from ..core import Harness

PRELUDE = """use ldpc_toolbox::simulation::modulation::{BpskDemodulator, BpskModulator, Psk8Demodulator, Psk8Modulator, Demodulator, Modulator};
use ldpc_toolbox::gf2::GF2;
use num_complex::Complex;
use num_traits::{One, Zero};
"""


def bits64(x):
    return struct.unpack("<Q", struct.pack("<d", x))[0]


def fl(x):
    r = repr(float(x))
    return r if ("." in r or "e" in r or "inf" in r) else r + ".0"


def build(tier, seed):
    sig_bpsk = [0.001, 0.01, 0.1, 0.25, 0.5, 0.7071067811865476, 1.0, 1.4142135623730951, 2.0, 3.0, 10.0, 1000.0]
    if tier == "thorough":
        sig_bpsk += [0.003, 0.03, 0.3, 0.9, 1.1, 5.0, 31.6, 100.0, 316.0, 1e-6, 1e6]
    sig_psk = [0.02, 0.1, 0.3] if tier == "quick" else [0.01, 0.02, 0.03, 0.05, 0.1, 0.15, 0.2, 0.25, 0.3]
    eps = 0.02
    items = []
    for i, s in enumerate(sig_bpsk):
        scale = -2.0 / (s * s)   # IEEE double, same operations as BpskDemodulator::new
        hn = "c14_bpsk_s%d" % i
        items.append((Harness(hn, {"sigma": s, "input": "one sample over every finite f64 (sign/zero/NaN behaviour); the sample 1.0 (pins the scale bit-for-bit); samples k*2^-e, k in i8, e in {0,3,30} (bit-identical product); one bit",
                                    "oracle": "LLR = (-2/sigma^2)*r; mapping 0->-1, 1->+1; noiseless hard decision returns the bit"}, 1.0),
                      "crate::c14_bpsk!(%s, %s, 0x%016x);" % (hn, fl(s), bits64(scale))))
    items.append((Harness("c14_psk8_mod", {"input": "all 6-bit sequences (two symbols), all octant pairs", "oracle": "EN 302 307-1 Gray table (pinned), first bit = MSB, unit energy within 4 eps, angular neighbours differ in one bit"}, 2.0),
                  "crate::c14_psk8_mod!(c14_psk8_mod);"))
    for i, s in enumerate(sig_psk):
        hn = "c14_psk8_demod_s%d" % i
        items.append((Harness(hn, {"sigma": s, "input": "all 8 triples; perturbation (e_re, e_im), each every f64 in [-%g, %g]" % (eps, eps),
                                    "oracle": "three LLRs in modulator bit order whose signs give back the transmitted triple"}, 6.0, stubs="CONTRACT"),
                      "crate::c14_psk8_demod!(%s, %s, %s, false);" % (hn, fl(s), fl(eps))))
        hn = "c14_psk8_demod_exact_s%d" % i
        items.append((Harness(hn, {"sigma": s, "input": "all 8 triples, noiseless sample",
                                    "oracle": "signs as above, and each LLR within +-2.08 of the max-log value computed from the pinned constellation and bit partitions (pins which symbols enter which max* set, and the constants)"}, 3.0, stubs="CONTRACT"),
                      "crate::c14_psk8_demod!(%s, %s, 0.0, true);" % (hn, fl(s))))
    meta = {
        "functions": ["BpskDemodulator::{new, from_noise_sigma, demodulate}", "BpskModulator::{modulate, modulate_bit}", "Psk8Modulator::{modulate, modulate_bits}",
                      "Psk8Demodulator::{new, from_noise_sigma, demodulate, demodulate_symbol}", "modulation::{dot, maxstar}"],
        "bounds": {"bpsk_sigma_grid": sig_bpsk, "psk8_sigma_grid": sig_psk, "psk8_perturbation_inf_norm": eps},
        "outside": ["symbolic sigma (one symbolic f64 division does not finish, probe P21): sigma ranges over a concrete grid",
                    "BPSK: bit-identity of the product is decided on the sample 1.0 and the small exact domain; for arbitrary finite samples only sign / zero / no-NaN (two full-width f64 products compared are a multiplier miter that does not finish)",
                    "the LLR *values* of the 8PSK demapper (max* = transcendental): only their signs near constellation points, for sigma <= 0.3, are decided",
                    "8PSK samples further than the perturbation bound from a constellation point"],
        "stubs": ["CONTRACT (8PSK demodulator harnesses: exp on (-inf,0] in [0,1], ln_1p on [0,1] in [0, min(z, 0.6932)])"],
        "assumptions": ["scale constants are computed by the driver in IEEE double arithmetic with the same operations as the code (-2/(s*s))"],
    }
    return {"prelude": PRELUDE, "items": items, "meta": meta, "nshards": min(14, len(items)), "timeout": 600 if tier == "quick" else 1800}
