"""Counterexample replay: turn a failed Kani harness into a native test against /repo."""
import json, os, re, shutil, subprocess, glob
from . import core

KANI_HOME = None


def kani_home():
    global KANI_HOME
    if KANI_HOME is None:
        c = sorted(glob.glob(os.path.expanduser("~/.kani/kani-*")))
        KANI_HOME = c[-1] if c else ""
    return KANI_HOME


def extract_playback(workdir, res, prelude, rust_text, tables_rs, loops, timeout):
    """Re-runs the failing harness with concrete playback and returns the unit test text.  The shard's own
    crate and build output are reused when still present (no rebuild, same --unwindset)."""
    d = os.path.join(workdir, "replay_" + res.h.name)
    crate = os.path.join(d, "crate")
    os.makedirs(d, exist_ok=True)
    log = os.path.join(d, "playback_extract.log")
    core.write_crate(crate, prelude + "\n" + rust_text + "\n", tables_rs)   # tiny crate used for the native run
    if res.shard and os.path.isdir(res.shard[1]):
        run_crate, tgt, cbmc_args = res.shard
    else:
        run_crate, tgt = crate, os.path.join(d, "target")
        cbmc_args = list(core.CBMC_BASE)
        core.run_cmd(["cargo", "kani", "--only-codegen", "--target-dir", tgt] + core.KANI_BASE, run_crate, log, timeout=1800)
        cbmc_args += core.unwindset_args(core.discover_loops(tgt, core.loop_patterns([res.h])))
    cmd = ["cargo", "kani", "--target-dir", tgt, "--exact", "--harness", "gen::" + res.h.name,
           "-Z", "concrete-playback", "--concrete-playback=print",
           "--harness-timeout", "%ds" % timeout] + core.KANI_BASE + ["--cbmc-args"] + cbmc_args
    core.run_cmd(cmd, run_crate, log, timeout=timeout + 600)
    text = open(log, errors="replace").read()
    if run_crate == crate:
        shutil.rmtree(tgt, ignore_errors=True)
    tests = re.findall(r"```\s*\n(.*?)```", text, re.S)
    tests = [t for t in tests if "concrete_playback_run" in t]
    # Kani also emits playback tests for satisfied cover properties: those are witnesses, not failures
    tests = [t for t in tests if not re.search(r"Check for `cover`", t)]
    # drop Kani's doc comment (it wraps long descriptions onto lines without `///`, which does not compile)
    tests = [t[t.index("#[test]"):] for t in tests if "#[test]" in t]
    return d, crate, tests


def native_run_all(crate, release, log):
    """Runs every playback test of the crate natively with the real libm.
    Returns {test name: 'failed' | 'ok' | 'invalid' | 'error'}:
      failed  = the harness body panicked (assertion, overflow, index, unwrap ...)
      ok      = no panic, or only Kani's end-of-playback bookkeeping panic (values that only stubs consumed)
      invalid = a kani::assume of the harness does not hold for these values (only possible for neighbourhood variants)
    """
    kh = kani_home()
    flags = ["-Zunstable-options", "-Ztrim-diagnostic-paths=no", "-Zhuman_readable_cgu_names",
             "-Zalways-encode-mir", "--cfg=kani", "-Zcrate-attr=feature(register_tool)",
             "-Zcrate-attr=register_tool(kanitool)", "--sysroot", kh + "/playback",
             "-L", kh + "/playback/lib", "--extern", "force:kani",
             "--extern", "noprelude,nounused:std=" + kh + "/playback/lib/libstd.rlib"]
    if not release:
        flags = ["-Coverflow-checks=on"] + flags
    e = core.env()
    e["CARGO_ENCODED_RUSTFLAGS"] = "\x1f".join(flags)
    e["RUSTC"] = kh + "/bin/kani-compiler"
    e["CARGO_TERM_PROGRESS_WHEN"] = "never"
    e["RUST_BACKTRACE"] = "0"
    # shared across replays (dependencies incl. /repo are built once; cargo serialises access)
    e["CARGO_TARGET_DIR"] = os.path.join(core.WORK, "native-replay-target")
    cmd = [kh + "/toolchain/bin/cargo", "test", "--lib", "--target", "x86_64-unknown-linux-gnu", "-Zhost-config",
           "-Ztarget-applies-to-host", "--config=host.rustflags=[\"--cfg=kani_host\"]"]
    if release:
        cmd.append("--release")
    cmd += ["--", "kani_concrete_playback_", "--test-threads", "1"]
    with open(log, "ab") as f:
        f.write(("\n$ " + " ".join(cmd) + "\n").encode())
        f.flush()
        try:
            subprocess.run(cmd, cwd=crate, stdout=f, stderr=subprocess.STDOUT, env=e, timeout=2400)
        except subprocess.TimeoutExpired:
            return {}
    out = open(log, errors="replace").read()
    tail = out[out.rfind("$ "):]
    res = {}
    for m in re.finditer(r"^test (\S+) \.\.\. (\w+)", tail, re.M):
        nm, st = m.group(1).split("::")[-1], m.group(2)
        res[nm] = "ok" if st == "ok" else "failed"
    # classify the failed ones by their panic message
    for m in re.finditer(r"^---- (\S+) stdout ----\n(.*?)(?=^---- |^failures:|\Z)", tail, re.M | re.S):
        nm, body = m.group(1).split("::")[-1], m.group(2)
        if res.get(nm) != "failed":
            continue
        if "there were still these concrete values left over" in body:
            res[nm] = "ok"
        elif "`kani::assume` should always hold" in body:
            res[nm] = "invalid"
        elif re.search(r"Not enough det vals|ran out of concrete values", body, re.I):
            res[nm] = "error"
    return res


def make_variants(test_text, base_name, count, seed):
    """Neighbourhood of a solver counterexample: the same harness inputs with every 1- and 2-byte value
    redrawn (message / LLR-mantissa values; 8-byte values are kept).  Used only when the solver's own values do
    not reproduce natively: a SURROGATE-model difference may need other magnitudes to show with the real libm."""
    import random
    rnd = random.Random(seed)
    lines = test_text.splitlines()
    out = []
    for k in range(count):
        new = []
        for ln in lines:
            m = re.match(r"^(\s*)vec!\[([0-9, ]+)\],\s*$", ln)
            if m:
                vals = [v for v in m.group(2).replace(" ", "").split(",") if v]
                if len(vals) == 1:
                    if k == 0:
                        b = 40
                    elif k == 1:
                        b = rnd.choice([8, 16, 24, 100, 156, 232])
                    else:
                        b = rnd.choice(list(range(1, 128)) + list(range(129, 256)))
                    ln = "%svec![%d]," % (m.group(1), b)
                elif len(vals) == 2:
                    v = rnd.randint(-2000, 2000) & 0xffff
                    ln = "%svec![%d, %d]," % (m.group(1), v & 0xff, v >> 8)
            new.append(ln)
        t = "\n".join(new).replace(base_name, "%s_v%d" % (base_name, k))
        out.append(t)
    return out


def replay_tests(d, crate, tests, harness_name, variants=24, seed=0):
    """Appends the tests to gen.rs and runs them natively in dev and release profiles; if none reproduces, a
    neighbourhood of each counterexample is tried as well."""
    gen = os.path.join(crate, "src", "gen.rs")
    body0 = open(gen).read()
    named = []
    for i, t in enumerate(tests):
        m = re.search(r"fn (kani_concrete_playback_\w+)\(", t)
        if not m:
            continue
        nm = "%s_%d" % (m.group(1), i)
        named.append((nm, t.replace(m.group(1), nm)))
    log = os.path.join(d, "native_replay.log")

    def run(batch):
        open(gen, "w").write(body0 + "\n" + "\n".join(t for _, t in batch) + "\n")
        dev = native_run_all(crate, False, log)
        # the release profile (no overflow checks, what users run) only if the dev profile did not reproduce
        rel = {} if any(v == "failed" for v in dev.values()) else native_run_all(crate, True, log)
        return [{"test": nm, "dev": dev.get(nm, "error"), "release": rel.get(nm, "not-run" if not rel else "error")} for nm, _ in batch]

    outcomes = run(named) if named else []
    if named and not any(o["dev"] == "failed" or o["release"] == "failed" for o in outcomes) and variants:
        vb = []
        for nm, t in named[:3]:
            for vt in make_variants(t, nm, variants, seed):
                vn = re.search(r"fn (kani_concrete_playback_\w+)\(", vt).group(1)
                vb.append((vn, vt))
        vo = run(vb)
        for o in vo:
            o["variant"] = True
        outcomes += [o for o in vo if o["dev"] == "failed" or o["release"] == "failed"][:3]
        outcomes.append({"test": "neighbourhood", "tried": len(vb), "dev": "n/a", "release": "n/a",
                         "invalid": sum(1 for o in vo if o["dev"] == "invalid")})
    return [nm for nm, _ in named], outcomes, log
