"""Counterexample replay: turn a failed Kani harness into a native test against /repo."""
import json, os, re, shutil, subprocess, glob
from . import core

KANI_HOME = None


def kani_home():
    global KANI_HOME
    if KANI_HOME is None:
        c = sorted(glob.glob(os.path.expanduser("~/.kani/kani-*")))
        KANI_HOME = c[-1] if c else ""
    return KANI_HOME


def extract_playback(workdir, res, prelude, rust_text, tables_rs, loops, timeout):
    """Re-runs the failing harness with concrete playback and returns the unit test text."""
    d = os.path.join(workdir, "replay_" + res.h.name)
    crate = os.path.join(d, "crate")
    tgt = os.path.join(d, "target")
    core.write_crate(crate, prelude + "\n" + rust_text + "\n", tables_rs)
    log = os.path.join(d, "playback_extract.log")
    cbmc_args = list(core.CBMC_BASE)
    # loop names are only known after codegen
    rc = core.run_cmd(["cargo", "kani", "--only-codegen", "--target-dir", tgt] + core.KANI_BASE, crate, log, timeout=1800)
    cbmc_args += core.unwindset_args(core.discover_loops(tgt, core.loop_patterns([res.h])))
    cmd = ["cargo", "kani", "--target-dir", tgt, "--exact", "--harness", "gen::" + res.h.name,
           "-Z", "concrete-playback", "--concrete-playback=print",
           "--harness-timeout", "%ds" % timeout] + core.KANI_BASE + ["--cbmc-args"] + cbmc_args
    core.run_cmd(cmd, crate, log, timeout=timeout + 600)
    text = open(log, errors="replace").read()
    shutil.rmtree(tgt, ignore_errors=True)
    tests = re.findall(r"```\s*\n(.*?)```", text, re.S)
    tests = [t for t in tests if "concrete_playback_run" in t]
    # Kani also emits playback tests for satisfied cover properties: those are witnesses, not failures
    tests = [t for t in tests if not re.search(r"Check for `cover`", t)]
    return d, crate, tests


def native_run(crate, test_name, release, log):
    """Runs one playback test natively with the real libm.  Returns 'failed' | 'ok' | 'error'."""
    kh = kani_home()
    flags = ["-Zunstable-options", "-Ztrim-diagnostic-paths=no", "-Zhuman_readable_cgu_names",
             "-Zalways-encode-mir", "--cfg=kani", "-Zcrate-attr=feature(register_tool)",
             "-Zcrate-attr=register_tool(kanitool)", "--sysroot", kh + "/playback",
             "-L", kh + "/playback/lib", "--extern", "force:kani",
             "--extern", "noprelude,nounused:std=" + kh + "/playback/lib/libstd.rlib"]
    if not release:
        flags = ["-Coverflow-checks=on"] + flags
    e = core.env()
    e["CARGO_ENCODED_RUSTFLAGS"] = "\x1f".join(flags)
    e["RUSTC"] = kh + "/bin/kani-compiler"
    e["CARGO_TERM_PROGRESS_WHEN"] = "never"
    # shared across replays (dependencies incl. /repo are built once; cargo serialises access)
    e["CARGO_TARGET_DIR"] = os.path.join(core.WORK, "native-replay-target")
    cmd = [kh + "/toolchain/bin/cargo", "test", "--lib", "--target", "x86_64-unknown-linux-gnu", "-Zhost-config",
           "-Ztarget-applies-to-host", "--config=host.rustflags=[\"--cfg=kani_host\"]"]
    if release:
        cmd.append("--release")
    cmd += ["--", test_name, "--exact", "--test-threads", "1"]
    with open(log, "ab") as f:
        f.write(("\n$ " + " ".join(cmd) + "\n").encode())
        f.flush()
        try:
            p = subprocess.run(cmd, cwd=crate, stdout=f, stderr=subprocess.STDOUT, env=e, timeout=1800)
        except subprocess.TimeoutExpired:
            return "error"
    out = open(log, errors="replace").read()
    tail = out[out.rfind("$ "):]
    # The harness body ran to completion without any failure if the only panic is Kani's
    # end-of-playback bookkeeping (values consumed by stubs in the model are left over natively).
    if "there were still these concrete values left over" in tail:
        return "ok"
    if re.search(r"Not enough det vals|ran out of concrete values", tail, re.I):
        return "error"
    if re.search(r"test result: FAILED", tail) or re.search(r"\.\.\. FAILED", tail):
        return "failed"
    if re.search(r"test result: ok\. 1 passed", tail):
        return "ok"
    # aborts (panic=abort is not used here, but a SIGABRT/segfault counts as a failure of the test)
    if re.search(r"signal: \d+", tail):
        return "failed"
    return "error"


def replay_tests(d, crate, tests, harness_name):
    """Appends the tests to gen.rs and runs them natively in dev and release profiles."""
    gen = os.path.join(crate, "src", "gen.rs")
    names = []
    body = open(gen).read()
    for i, t in enumerate(tests):
        m = re.search(r"fn (kani_concrete_playback_\w+)\(", t)
        if not m:
            continue
        nm = "%s_%d" % (m.group(1), i)
        t = t.replace(m.group(1), nm)
        names.append(nm)
        body += "\n" + t + "\n"
    open(gen, "w").write(body)
    log = os.path.join(d, "native_replay.log")
    outcomes = []
    for nm in names:
        o = {"test": nm}
        o["dev"] = native_run(crate, "gen::" + nm, False, log)
        o["release"] = native_run(crate, "gen::" + nm, True, log)
        outcomes.append(o)
    return names, outcomes, log
