"""Driver core: builds per-shard copies of the harness crate, runs Kani/CBMC on them in
parallel, parses the verdicts, replays counterexamples natively, writes evidence.

Only the Python standard library is used.
"""
import json, os, re, shutil, signal, subprocess, sys, threading, time
from concurrent.futures import ThreadPoolExecutor

VERIF = os.path.dirname(os.path.dirname(os.path.abspath(__file__)))
REPO = "/repo"
HARNESS_SRC = os.path.join(VERIF, "harness")
WORK = os.path.join(VERIF, ".work")
EVID = os.path.join(VERIF, "evidence")
VIOL = os.path.join(VERIF, "violations")
KNOWN = os.path.join(VERIF, "known_findings.json")

# --no-assertion-reach-checks: Kani's per-assertion reachability annotation ("unreachable") is
# not needed -- vacuity is handled by explicit kani::cover! witnesses -- and costs ~40% of the run.
KANI_BASE = ["-Z", "unstable-options", "-Z", "stubbing", "--no-assertion-reach-checks"]
CBMC_BASE = ["--max-field-sensitivity-array-size", "4096"]

# loops that must be unrolled further than the (small) per-harness bound: the 8-bit
# correction-table construction in `impl_8bitquant!::new()` (stops after 23 entries under
# the exact TABLE stub).  Matched against `cbmc --show-loops` names.
TABLE_LOOP_RE = re.compile(r"extend_desugared.*MapWhile.*RangeInclusive.*ldpc_toolbox.*arithmetic.*3new")
TABLE_LOOP_UNWIND = 26


def kani_home():
    import glob
    c = sorted(glob.glob(os.path.expanduser("~/.kani/kani-*")))
    return c[-1] if c else ""


def env():
    e = dict(os.environ)
    e["CARGO_NET_OFFLINE"] = "true"
    e.pop("RUSTFLAGS", None)
    return e


class Harness:
    def __init__(self, name, desc, weight=1.0, cap_s=None, covers=None, stubs="none", unwind=None, unwindset=None, neighbourhood=False):
        self.name = name          # function name inside module `gen`
        self.desc = desc          # dict written to the evidence (what it quantifies over)
        self.weight = weight      # relative cost estimate (for sharding)
        self.cap_s = cap_s
        self.covers = covers      # expected number of satisfied covers (None: all listed)
        self.stubs = stubs
        self.unwind = unwind
        self.unwindset = unwindset  # [(regex on cbmc loop names, bound)] loops that need more than the global bound
        # replay may also try a neighbourhood of the solver's values (only harnesses whose 1-/2-byte inputs are all
        # small-domain mantissas / selectors, i.e. every byte value is a valid input)
        self.neighbourhood = neighbourhood


class Result:
    def __init__(self, h):
        self.h = h
        self.status = "missing"   # pass | fail | inconclusive | vacuous | missing
        self.failed_checks = []
        self.reason = ""
        self.symex_s = 0.0
        self.solver_s = 0.0
        self.verif_s = 0.0
        self.steps = 0
        self.vccs = 0
        self.checks = 0
        self.covers_sat = 0
        self.covers_total = 0
        self.log = ""
        self.shard = None


# ------------------------------------------------------------------------------------
# memory watchdog: kills any cbmc below this driver whose RSS exceeds the cap
# ------------------------------------------------------------------------------------
class Watchdog(threading.Thread):
    def __init__(self, rss_cap_kb, tag):
        super().__init__(daemon=True)
        self.cap = rss_cap_kb
        self.tag = tag
        self.stop = False
        self.killed = []
        self.total_cap = 44 * 1024 * 1024  # KB: all cbmc of this run together

    def run(self):
        while not self.stop:
            try:
                out = subprocess.run(["ps", "-eo", "pid,rss,args"], capture_output=True, text=True).stdout
                mine = []
                for line in out.splitlines()[1:]:
                    parts = line.split(None, 2)
                    if len(parts) < 3:
                        continue
                    pid, rss, args = int(parts[0]), int(parts[1]), parts[2]
                    if args.startswith("cbmc ") and self.tag in args:
                        mine.append((rss, pid))
                        if rss > self.cap:
                            self.kill(pid, rss)
                # global cap: keep the machine out of the OOM killer's reach
                total = sum(r for r, _ in mine)
                if total > self.total_cap and mine:
                    rss, pid = max(mine)
                    self.kill(pid, rss)
            except Exception:
                pass
            time.sleep(3)

    def kill(self, pid, rss):
        try:
            os.kill(pid, signal.SIGKILL)
            self.killed.append((pid, rss))
        except ProcessLookupError:
            pass


# ------------------------------------------------------------------------------------
# crate preparation
# ------------------------------------------------------------------------------------
def write_crate(dst, gen_rs, tables_rs):
    if os.path.exists(dst):
        shutil.rmtree(dst)
    os.makedirs(os.path.join(dst, "src"))
    for f in ("Cargo.toml",):
        shutil.copy(os.path.join(HARNESS_SRC, f), dst)
    # always the repository's current lock file
    shutil.copy(os.path.join(REPO, "Cargo.lock"), os.path.join(dst, "Cargo.lock"))
    for f in os.listdir(os.path.join(HARNESS_SRC, "src")):
        if f.endswith(".rs") and f not in ("gen.rs", "tables.rs"):
            shutil.copy(os.path.join(HARNESS_SRC, "src", f), os.path.join(dst, "src", f))
    open(os.path.join(dst, "src", "gen.rs"), "w").write(gen_rs)
    open(os.path.join(dst, "src", "tables.rs"), "w").write(tables_rs)


def run_cmd(cmd, cwd, log, timeout=None):
    with open(log, "ab") as f:
        f.write(("\n$ " + " ".join(cmd) + "\n").encode())
        f.flush()
        p = subprocess.Popen(cmd, cwd=cwd, stdout=f, stderr=subprocess.STDOUT, env=env(), start_new_session=True)
        try:
            rc = p.wait(timeout=timeout)
        except subprocess.TimeoutExpired:
            try:
                os.killpg(p.pid, signal.SIGKILL)
            except ProcessLookupError:
                pass
            p.wait()
            rc = -9
        return rc


def build_template(workdir, tables_rs, log):
    """Compile the dependencies (incl. /repo's current tree with hooks) once."""
    crate = os.path.join(workdir, "template", "crate")
    tgt = os.path.join(workdir, "template", "target")
    write_crate(crate, "// empty\n", tables_rs)
    rc = run_cmd(["cargo", "kani", "--only-codegen", "--target-dir", tgt] + KANI_BASE, crate, log, timeout=1200)
    return rc, tgt


def discover_loops(tgt, patterns):
    """patterns: list of (compiled regex, bound).  Links every harness binary like kani-driver
    does, lists its loops and returns {loop name: bound} for the loops that match."""
    found = {}
    kl = os.path.join(kani_home(), "library", "kani", "kani_lib.c")
    for root, _, files in os.walk(tgt):
        for f in files:
            if not f.endswith(".symtab.out"):
                continue
            linked = os.path.join(root, f[:-len(".symtab.out")] + ".showloops.tmp")
            subprocess.run(["goto-cc", os.path.join(root, f), kl, "-o", linked], capture_output=True, text=True)
            out = subprocess.run(["cbmc", "--show-loops", linked], capture_output=True, text=True).stdout
            try:
                os.remove(linked)
            except OSError:
                pass
            for line in out.splitlines():
                if not line.startswith("Loop "):
                    continue
                nm = line[5:].rstrip(":")
                for rx, bound in patterns:
                    if rx.search(nm):
                        found[nm] = max(found.get(nm, 0), bound)
    return found


def loop_patterns(harnesses):
    pats = [(TABLE_LOOP_RE, TABLE_LOOP_UNWIND)]
    for h in harnesses:
        for rx, bound in (h.unwindset or []):
            pats.append((re.compile(rx), bound))
    return pats


def unwindset_args(found):
    if not found:
        return []
    return ["--unwindset", ",".join("%s:%d" % (l, b) for l, b in sorted(found.items()))]


# ------------------------------------------------------------------------------------
# log parsing
# ------------------------------------------------------------------------------------
def parse_blocks(text):
    """Splits cargo-kani regular output into per-harness blocks."""
    blocks = {}
    cur = None
    buf = []
    for line in text.splitlines():
        m = re.match(r"Checking harness (\S+?)\.\.\.", line)
        if m:
            if cur:
                blocks[cur] = "\n".join(buf)
            cur = m.group(1)
            buf = []
        if cur:
            buf.append(line)
    if cur:
        blocks[cur] = "\n".join(buf)
    return blocks


def parse_result(res, block):
    res.log = block
    f = lambda pat, conv, default: (conv(re.findall(pat, block)[-1]) if re.findall(pat, block) else default)
    res.symex_s = sum(float(x) for x in re.findall(r"Runtime Symex: ([0-9.e+-]+)s", block))
    res.solver_s = sum(float(x) for x in re.findall(r"Runtime decision procedure: ([0-9.e+-]+)s", block))
    res.steps = f(r"size of program expression: (\d+) steps", int, 0)
    res.vccs = f(r"Generated (\d+) VCC", int, 0)
    res.verif_s = f(r"Verification Time: ([0-9.e+-]+)s", float, 0.0)
    m = re.search(r"\*\* (\d+) of (\d+) failed", block)
    if m:
        res.checks = int(m.group(2))
    m = re.search(r"\*\* (\d+) of (\d+) cover properties satisfied", block)
    if m:
        res.covers_sat, res.covers_total = int(m.group(1)), int(m.group(2))
    res.failed_checks = [x.strip() for x in re.findall(r"^Failed Checks: (.*)$", block, re.M)]
    if "VERIFICATION:- SUCCESSFUL" in block:
        want = res.h.covers if res.h.covers is not None else res.covers_total
        if res.covers_total > 0 and res.covers_sat < want:
            res.status = "vacuous"
            res.reason = "only %d of %d cover witnesses satisfied" % (res.covers_sat, res.covers_total)
        else:
            res.status = "pass"
    elif "VERIFICATION:- FAILED" in block:
        fc = " | ".join(res.failed_checks)
        if re.search(r"unwinding assertion", fc):
            res.status, res.reason = "inconclusive", "unwinding assertion failed (bound too small): " + fc[:300]
        elif re.search(r"not currently supported by Kani|unsupported", fc):
            res.status, res.reason = "inconclusive", "unsupported construct reached: " + fc[:300]
        elif re.search(r"out of memory|timed out|Timeout|CBMC failed|std::bad_alloc", block, re.I) and not res.failed_checks:
            res.status, res.reason = "inconclusive", "solver resource limit"
        elif not res.failed_checks:
            res.status, res.reason = "inconclusive", "FAILED without a failed check (resource limit / crash)"
        else:
            res.status, res.reason = "fail", fc[:500]
    else:
        res.status, res.reason = "inconclusive", "no verdict (timeout, kill or crash)"


# ------------------------------------------------------------------------------------
# shard execution
# ------------------------------------------------------------------------------------
def run_shard(idx, workdir, template_tgt, prelude, items, tables_rs, harness_timeout, tag):
    """items: list of (Harness, rust_text).  Returns dict name -> Result."""
    sd = os.path.join(workdir, "shard%02d" % idx)
    crate = os.path.join(sd, tag)  # the tag appears in cbmc's argv (watchdog filter)
    tgt = os.path.join(sd, "target")
    log = os.path.join(workdir, "shard%02d.log" % idx)
    if os.path.exists(sd):
        shutil.rmtree(sd)
    os.makedirs(sd)
    gen_rs = prelude + "\n" + "\n".join(t for _, t in items) + "\n"
    write_crate(crate, gen_rs, tables_rs)
    # the watchdog matches on the target dir path, which cbmc receives
    tgt = os.path.join(sd, tag + "_target")
    open(log, "w").close()
    results = {h.name: Result(h) for h, _ in items}
    rc = run_cmd(["cargo", "kani", "--only-codegen", "--target-dir", tgt] + KANI_BASE, crate, log, timeout=3600)
    if rc != 0:
        for r in results.values():
            r.status, r.reason = "inconclusive", "harness crate failed to compile (see %s)" % log
        return results
    cbmc_args = list(CBMC_BASE) + unwindset_args(discover_loops(tgt, loop_patterns([h for h, _ in items])))
    hs = []
    for h, _ in items:
        hs += ["--harness", "gen::" + h.name]
    cmd = ["cargo", "kani", "--target-dir", tgt, "--exact"] + hs + \
          ["--harness-timeout", "%ds" % harness_timeout] + KANI_BASE + ["--cbmc-args"] + cbmc_args
    total_to = harness_timeout * len(items) + 600
    run_cmd(cmd, crate, log, timeout=total_to)
    text = open(log, errors="replace").read()
    blocks = parse_blocks(text)
    for h, _ in items:
        r = results[h.name]
        b = blocks.get("gen::" + h.name)
        if b is None:
            r.status, r.reason = "inconclusive", "harness not reached (earlier crash/timeout in shard)"
        else:
            parse_result(r, b)
    # keep the build output only when a harness failed (the replay re-runs it there without rebuilding)
    if any(r.status == "fail" for r in results.values()):
        for r in results.values():
            r.shard = (crate, tgt, cbmc_args)
    else:
        shutil.rmtree(tgt, ignore_errors=True)
    return results


def shard_items(items, nshards):
    items = sorted(items, key=lambda it: -it[0].weight)
    shards = [[] for _ in range(nshards)]
    loads = [0.0] * nshards
    for it in items:
        k = loads.index(min(loads))
        shards[k].append(it)
        loads[k] += it[0].weight
    return [s for s in shards if s]


def run_all(prop, tier, prelude, items, tables_rs, nshards=14, harness_timeout=300, rss_cap_gb=8):
    workdir = os.path.join(WORK, "%s-%s" % (prop, tier))
    if os.path.exists(workdir):
        shutil.rmtree(workdir)
    os.makedirs(workdir)
    tag = "vk%s%s%d" % (prop, tier[0], os.getpid())
    wd = Watchdog(rss_cap_gb * 1024 * 1024, tag)
    wd.start()
    t0 = time.time()
    ttgt = None
    shards = shard_items(items, min(nshards, max(1, len(items))))
    results = {}
    with ThreadPoolExecutor(max_workers=len(shards)) as ex:
        futs = [ex.submit(run_shard, i, workdir, ttgt, prelude, sh, tables_rs, harness_timeout, tag)
                for i, sh in enumerate(shards)]
        for f in futs:
            results.update(f.result())
    wd.stop = True
    for pid, rss in wd.killed:
        sys.stderr.write("watchdog: killed cbmc pid %d at %d MB\n" % (pid, rss // 1024))
    return results, workdir, None


def native_stub_validation():
    """Runs the harness crate's native tests (real libm): TABLE constants and every CONTRACT
    fact on a grid.  Returns a dict for the evidence; 'ok' False makes the check inconclusive."""
    from . import tables
    d = os.path.join(WORK, "native-stubtest")
    crate = os.path.join(d, "crate")
    tgt = os.path.join(d, "target")
    os.makedirs(d, exist_ok=True)
    write_crate(crate, "// empty\n", tables.render()[0])
    log = os.path.join(d, "test.log")
    open(log, "w").close()
    rc = run_cmd(["cargo", "test", "--offline", "--lib", "--target-dir", tgt], crate, log, timeout=1200)
    text = open(log, errors="replace").read()
    m = re.search(r"test result: (\w+)\. (\d+) passed; (\d+) failed", text)
    ok = rc == 0 and m is not None and m.group(1) == "ok" and int(m.group(2)) >= 2
    return {"cmd": "cargo test --lib (harness crate, native, real libm)", "ok": ok,
            "passed": int(m.group(2)) if m else 0, "failed": int(m.group(3)) if m else -1,
            "what": "TABLE constants == native exp/ln_1p on the 128 table arguments; every CONTRACT interval fact on a dense grid for f64 and f32"}
