"""Structure families: concrete parity-check matrices (DESIGN.md §4).  Structure must be
concrete under Kani (probe P4); everything else is symbolic.  Families are *bounds*."""
import random

HQ = [
    ("chain2x3", 3, [[0, 1], [1, 2]]),
    ("deg3_2x4", 4, [[0, 1, 2], [2, 3]]),
    ("star3x4", 4, [[0, 1], [0, 2], [2, 3]]),
    ("cyc3x6", 6, [[0, 1, 3], [1, 2, 4], [0, 2, 5]]),
    ("stair3x5", 5, [[0, 2], [0, 1, 2, 3], [1, 3, 4]]),
    ("deg1w4_3x4", 4, [[0, 1, 2, 3], [0, 1], [1, 2]]),
]

PAIR1X2 = ("pair1x2", 2, [[0, 1]])

JOHNSON = ("johnson4x6", 6, [[0, 1, 3], [1, 2, 4], [0, 4, 5], [2, 3, 5]])


def all_small(r, n):
    """All r x n matrices with row weight >= 2, every column used, up to column permutation
    and row order (canonical form: sorted column signatures)."""
    import itertools
    seen = set()
    out = []
    rows_opts = [c for k in range(2, n + 1) for c in itertools.combinations(range(n), k)]
    for rows in itertools.product(rows_opts, repeat=r):
        cols = [tuple(i for i in range(r) if j in rows[i]) for j in range(n)]
        if any(len(c) == 0 for c in cols):
            continue
        # canonical under column permutation and row permutation
        best = None
        for perm in itertools.permutations(range(r)):
            sig = tuple(sorted(tuple(sorted(perm[i] for i in c)) for c in cols))
            if best is None or sig < best:
                best = sig
        if best in seen:
            continue
        seen.add(best)
        out.append(("all%dx%d_%d" % (r, n, len(out)), n, [list(rw) for rw in rows]))
    return out


def random_family(seed, count, shapes=((3, 5), (3, 6), (4, 6))):
    rnd = random.Random(seed)
    out = []
    tries = 0
    while len(out) < count and tries < 1000:
        tries += 1
        r, n = shapes[len(out) % len(shapes)]
        cols = [sorted(rnd.sample(range(r), rnd.choice([1, 1, 2, 2, 2, 3]) if r >= 3 else rnd.randint(1, 2))) for _ in range(n)]
        rows = [[j for j in range(n) if i in cols[j]] for i in range(r)]
        if any(len(rw) < 2 for rw in rows):
            continue
        out.append(("rnd%d_%dx%d_%d" % (seed, r, n, len(out)), n, rows))
    return out


def rust_defs(fam):
    """Rust source: constructor, codeword test, sign-pattern test for each matrix."""
    s = ""
    for name, n, rows in fam:
        r = len(rows)
        s += "fn h_%s() -> SparseMatrix {\n    let mut h = SparseMatrix::new(%d, %d);\n" % (name, r, n)
        for i, rw in enumerate(rows):
            s += "    h.insert_row(%d, [%s].iter());\n" % (i, ", ".join("%dusize" % c for c in rw))
        s += "    h\n}\n"
        conds = " && ".join("(" + " ^ ".join("c[%d]" % c for c in rw) + ") == 0" for rw in rows)
        s += "fn syn_%s(c: &[u8]) -> bool {\n    %s\n}\n" % (name, conds)
        dense = ", ".join("[" + ", ".join("true" if c in rw else "false" for c in range(n)) + "]" for rw in rows)
        s += "const HB_%s: [[bool; %d]; %d] = [%s];\n" % (name, n, r, dense)
    return s


def describe(fam):
    return [{"name": nm, "n": n, "rows": rows} for nm, n, rows in fam]
