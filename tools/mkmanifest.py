#!/usr/bin/env python3
"""Regenerates /verif/MANIFEST.json (single source of truth for check registration)."""
import json, os, subprocess

NA = {
 "C08": "subject is text formatting/parsing that builds heap structure from bytes: from_alist on a concrete 43-byte text did not finish symbolic execution in 25 min (probe P12); any symbolic byte makes structure symbolic (P4)",
 "C11": "BFS/girth code (VecDeque + impl Iterator chains) does not finish symbolic execution even on one concrete 3x3 graph with only the bound symbolic (probe P15, 20 min); graphs are heap structure (P4)",
 "C12": "observable only inside multi-threaded BerTest workers fed by OS randomness and a Gaussian sampler; noise statistics are not a bounded logical property; deterministic sub-claims are covered under C14/C15",
 "C13": "quantifies over thread schedules of std::thread + mpsc; Kani has no concurrency model and do_run is one monolithic function with no sequential unit to harness",
 "C16": "constructions are driven by a ChaCha8 stream and build structure step by step (symbolic seed => symbolic structure, P4); the seed search uses rayon",
 "C17": "every quantified dimension (operation history on a matrix) is heap structure; with a symbolic pre-state clear_*/toggle/set_* do not finish (probe P16, 15 min) and with concrete histories nothing is left for the solver to decide",
 "C20": "observable is process-level I/O (clap, stdout, files, exit status); whole-program runs are outside solver-based checking of units",
}

BASE_NOTE = ("Trusted base: Kani's MIR->goto translation, CBMC 6.11 + CaDiCaL, the harness crate (harness/src: reference models, stubs), "
             "the driver's verdict parsing. Bounded: every harness has an unwind bound with unwinding assertions on, a value range and a concrete structure; "
             "nothing is claimed outside the bounds listed in the evidence file. ")

C = {}
C["C01"] = ("For each of the 36 (schedule, arithmetic) pairs behind the implementation names, each matrix of the listed family and each listed iteration limit, the SAT solver decides the statement verbatim (success => codeword of length n, iterations <= limit, iterations == 0 <=> input signs satisfy H and then word == sign pattern; failure => length n, iterations == limit, word violates a check when limit >= 1) for ALL LLR vectors with |x| <= 1e30, on the compiled real decoder code.",
            BASE_NOTE + "Float pairs run under CONTRACT interval stubs for tanh/atanh/ln/exp/ln_1p (validated natively on a grid; over-approximation), 8-bit pairs under exact TABLE stubs. Decoders are built generically; the name->pair wiring is C18.",
            "Kani/CBMC bounded model checking (SAT) of flooding/layered decode per monomorphisation, symbolic f64 LLRs, concrete small H family")
C["C02"] = ("Core only: gauss_reduction over GF(2) is decided for ALL binary matrices of each listed shape (every entry symbolic): Err <=> left square block singular (subset-sum reference), Ok => [I | X] with B*X == C, never panics; GF(2) ops for all operands. With B = last r columns of H this is 'encoder exists iff those columns are invertible, else an error' and the parity equation.",
            BASE_NOTE + "Encoder::from_h / encode wrappers (column rotation, staircase path, dot/concatenate) are NOT covered: SparseMatrix::iter_all defeats symbolic execution (probe P14).",
            "Kani/CBMC bounded model checking (SAT) of linalg::gauss_reduction with fully symbolic GF(2) matrices")
C["C03"] = ("For both generic decoders with a checker-supplied exact integer min-sum arithmetic (a user-defined rule set through the public trait), each matrix of the family and each listed limit, the solver decides equality of (verdict, word, iterations) with dense textbook reference schedules for ALL integer LLR vectors in [-2^20, 2^20].",
            BASE_NOTE + "Reference schedules in harness/src/refmodels.rs. The posterior-exactness clause (sum-product on forests) is outside (transcendental values).",
            "Kani/CBMC bounded model checking (SAT), differential: real generic decoders vs reference schedules, symbolic LLRs")
C["C04"] = ("For each of the 24 arithmetic types and each listed check degree the solver decides the check-node rule for ALL message vectors (8-bit: equality with a reference integer rule incl. table contents, sign, magnitude, PHL promotion, no -128; float: one message per neighbour, sign rule, min* magnitude bound under validated interval contracts for libm).",
            BASE_NOTE + "Degrees above the bound and the transcendental accuracy clauses are outside.",
            "Kani/CBMC bounded model checking (SAT) of send_check_messages per monomorphisation, symbolic messages, differential against a reference rule")
C["C05"] = ("Quantiser for every f64 bit pattern, variable rule for all message vectors of the listed degrees (incl. degree 200 overflow freedom) with Rust overflow checks on, clip for every i16, layered primitive vs flooding rule on extrinsic values for all in-envelope states, for all 24 types.",
            BASE_NOTE + "Float layered consistency holds for the SURROGATE interpretation of the math functions on a small exact value domain.",
            "Kani/CBMC bounded model checking (SAT) of the arithmetic trait methods per monomorphisation, symbolic inputs, differential against reference rules")
C["C06"] = ("Parameters and tables only: for each of the 21 identifiers n, k, q equal EN 302 307-1 (transcribed), m = n-k = 360q, k/360 address rows, degree profile, and for symbolic (row, position) every address < m, distinct within its row and equal to the pinned copy.",
            BASE_NOTE + "Code::h() expansion/staircase loops, 4-cycle freedom, girth, encoder acceptance are NOT covered (>= 16200 heap insertions). The address pin is a snapshot of the tree (pins/).",
            "Kani/CBMC bounded model checking (SAT) of the DVB-S2 parameter/address accessors with symbolic table indices")
C["C07"] = ("pi kernel, M and tables only: for each of the 9 AR4JA codes M equals Table 7-2 and, for symbolic k in 1..=26 and i, i' < M, pi_k(i) < M, follows the quarter/circulant law against pinned theta/phi, is injective and maps consecutive inputs of a quarter to cyclically consecutive outputs; C2 circulant table: shifts < 511, distinct, equal to the pin.",
            BASE_NOTE + "Block placement in h(), ranks, girth, encoder acceptance are NOT covered. theta/phi/circulant pins are snapshots of the tree.",
            "Kani/CBMC bounded model checking (SAT) of AR4JACode::pi with symbolic (k, i)")
C["C09"] = ("Core only: row_echelon_form over GF(2) is decided for ALL binary matrices of each listed shape: echelon shape, row-equivalence in both directions, last row non-zero <=> full row rank (the conversion's rank test), pivot columns invertible in the input.",
            BASE_NOTE + "parity_to_systematic's column-moving wrapper is NOT covered (iter_all, probe P14); the known panic for square / far-right-pivot inputs sits there.",
            "Kani/CBMC bounded model checking (SAT) of linalg::row_echelon_form with fully symbolic GF(2) matrices")
C["C10"] = ("Decomposed: (1) arithmetic scratch: op A then op B on one arithmetic object emits what a fresh object emits, all values symbolic; (2) decode(A, limA); decode(B, 0) equals a fresh decoder's decode(B, 0); (3) inductive: a decoder whose every value cell (LLR buffers, message values) holds arbitrary data decodes like a fresh one -- covers histories of any length.",
            BASE_NOTE + "Two-run equalities use the LLR domain s*2^-e; float types hold for the SURROGATE math interpretation (data-flow claim). verif_havoc hook overwrites state only.",
            "Kani/CBMC bounded model checking (SAT), two-run differential from an arbitrary (havoc) pre-state")
C["C14"] = ("BPSK: scale pinned bit-for-bit by the sample 1.0 and bit-identical products on an exact domain, sign/zero/no-NaN for every finite sample, mapping and noiseless round trip, sigma on a grid; 8PSK modulator equals the EN 302 307-1 Gray table for all bit sequences of two symbols, unit energy, Gray adjacency; 8PSK demodulator returns the transmitted triple by sign for every perturbation within 0.02 of a constellation point (sigma grid <= 0.3).",
            BASE_NOTE + "Symbolic sigma and the LLR values of the 8PSK demapper are outside (division / transcendental).",
            "Kani/CBMC bounded model checking (SAT) of modulators/demodulators with symbolic samples, concrete sigma grid")
C["C15"] = ("Interleaver index law and inverse for all contents of each listed shape (both directions, u8/u32); puncturer keep/restore/rate/indivisible-length-error for all contents of each listed pattern and block size.",
            BASE_NOTE + "Shapes and patterns are concrete per harness (they are allocation structure).",
            "Kani/CBMC bounded model checking (SAT) of Interleaver/Puncturer with symbolic contents")
C["C19"] = ("Wrapper logic only: the C API decoder/encoder objects behind the extern \"C\" functions (driven through verif-hooks wrappers) are decided for ALL LLR/bit buffers with a checker-supplied scripted decoder of arbitrary behaviour: return value = iterations on success / -1 on failure, output = leading bits of exactly the decoder's word, decoder called once with the limit and the depunctured LLRs (exact zeros in removed blocks, f32 widened exactly); encoder output = punctured systematic codeword for every dense generator part and input buffer.",
            BASE_NOTE + "NOT covered: the extern \"C\" functions themselves (pointer/length conversion), constructors (alist/name/pattern parsing, files, null on error); independence of repeated calls reduces to C10.",
            "Kani/CBMC bounded model checking (SAT) of the C-API wrapper methods with symbolic buffers and a scripted trait-object decoder")
C["C18"] = ("from_str on every ASCII string of length <= 48 (symbolic): Ok iff one of the 36 pinned names, with the right variant; Display and the clap value list give back the identical string for each name; each factory row behaves like the generic decoder of the documented arithmetic and schedule on symbolic LLRs, and quantises at the named working precision (width witness on every f64).",
            BASE_NOTE + "Pairing on small matrices with the LLR domain s*2^-e; float rows under SURROGATE math; flooding A-Min* rows are paired on a one-check matrix in the quick tier (arithmetic and width, not schedule).",
            "Kani/CBMC bounded model checking (SAT): symbolic-string parsing; differential factory row vs generic decoder")


def chk(pid):
    text, note, tech = C[pid]
    return {"property_id": pid, "quick_cmd": "./check %s --tier quick" % pid, "thorough_cmd": "./check %s --tier thorough" % pid,
            "evidence_file": "evidence/%s.json" % pid, "replay_cmd_template": "./check %s --replay {path}" % pid, "engine": "kani-cbmc",
            "level_claimed": {"category": "model_checking", "text": text, "design_ref": "DESIGN.md §6 %s, §11" % pid},
            "level_note": note, "technique": tech}


def main():
    claimed = sorted(C.keys())
    # hook commits in /repo (feature verif-hooks, add-only).  f727db4 / 52b1d53 (a one-frame BER worker entry tried
    # for C12) were reverted by c39e775 / 86917e5 and leave no trace in the tree.
    hooks = ["c62a393", "f86905d", "7b7c56d", "1a87b27", "72bf7c3"]
    m = {"version": 1,
         "setup_cmd": "cd /verif && python3 tools/setup_check.py",
         "hooks": {"guard": "verif-hooks", "enable": "cargo feature: the harness crate depends on ldpc-toolbox = { path = \"/repo\", features = [\"verif-hooks\"] }",
                   "baseline_off_cmd": "cd /repo && cargo test --workspace --no-fail-fast --offline",
                   "source_commits": list(reversed(hooks)), "add_only": True},
         "engines": [{"name": "kani-cbmc", "path": "/verif/check", "serves_properties": claimed,
                      "kind_free_text": "Kani 0.68 harness crate (path dependency on /repo with the verif-hooks feature; regenerated and recompiled from the working tree on every run) decided by CBMC 6.11 + CaDiCaL; sharded driver in Python (stdlib only); native replay of counterexamples through Kani's concrete playback with the real libm"}],
         "checks": [chk(p) for p in claimed],
         "not_applicable": [{"property_id": k, "reason": v} for k, v in sorted(NA.items())],
         "notes": "./check <id> --tier quick|thorough; exit 0 held (KNOWN-FINDING lines possible), 1 VIOLATION (natively replayed), 2 inconclusive (resource limit, vacuous harness, non-reproducing candidate). Genuine defects repaired so far: known_findings.json ('fixed'). VERIF_SEED selects the random part of the thorough matrix families."}
    json.dump(m, open("/verif/MANIFEST.json", "w"), indent=1)
    print("claimed:", claimed)


if __name__ == "__main__":
    main()
