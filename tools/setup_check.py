#!/usr/bin/env python3
"""setup_cmd: nothing to build ahead of time (every check compiles /repo and the harness crate
itself); verify that the tools the checks need are present and work offline."""
import shutil, subprocess, sys, os
ok = True
for t in ("cargo", "cbmc", "goto-cc", "goto-instrument"):
    if shutil.which(t) is None:
        print("missing tool:", t); ok = False
r = subprocess.run(["cargo", "kani", "--version"], capture_output=True, text=True)
print((r.stdout + r.stderr).strip().splitlines()[0] if (r.stdout + r.stderr).strip() else "cargo kani: no output")
if r.returncode != 0:
    ok = False
if not os.path.isdir(os.path.expanduser("~/.kani")):
    print("missing ~/.kani"); ok = False
os.makedirs("/verif/.work", exist_ok=True)
os.makedirs("/verif/evidence", exist_ok=True)
sys.exit(0 if ok else 1)
