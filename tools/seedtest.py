#!/usr/bin/env python3
"""tools/seedtest.py <seed-id> <prop>[:only-regex] ...
Applies seeded/<seed-id>/patch.diff to /repo, runs the given checks, undoes the patch, and
records exit codes in seeded/<seed-id>/result.json.  /repo must be clean and no other check
may be running (the harness crate compiles /repo's working tree)."""
import json, os, subprocess, sys, time
V = os.path.dirname(os.path.dirname(os.path.abspath(__file__)))
sid = sys.argv[1]
patch = os.path.join(V, "seeded", sid, "patch.diff")
st = subprocess.run(["git", "-C", "/repo", "status", "--porcelain", "--untracked-files=no"], capture_output=True, text=True).stdout.strip()
if st:
    print("refusing: /repo has local changes:\n" + st); sys.exit(3)
subprocess.run(["git", "-C", "/repo", "apply", patch], check=True)
res = []
try:
    for spec in sys.argv[2:]:
        prop, _, only = spec.partition(":")
        cmd = [os.path.join(V, "check"), prop] + (["--only", only] if only else [])
        t0 = time.time()
        p = subprocess.run(cmd, cwd=V, capture_output=True, text=True)
        lines = [l for l in p.stdout.splitlines() if l.startswith(("VIOLATION", "KNOWN-FINDING", "INCONCLUSIVE", "harness ", "["))]
        res.append({"cmd": " ".join(cmd[1:]) if False else "./check " + " ".join(cmd[1:]), "exit": p.returncode, "wall_s": round(time.time() - t0), "output": lines[-12:]})
        print(spec, "exit", p.returncode, flush=True)
        for l in lines[-6:]:
            print("   ", l[:200])
finally:
    subprocess.run(["git", "-C", "/repo", "checkout", "--", "."], check=True)
out = os.path.join(V, "seeded", sid, "result.json")
old = json.load(open(out)) if os.path.exists(out) else {"runs": []}
old["runs"] += res
old["detected_by"] = sorted(set(r["cmd"].split()[1] for r in old["runs"] if r["exit"] == 1))
json.dump(old, open(out, "w"), indent=1)
